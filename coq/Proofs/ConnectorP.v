(* Connectors (C13) on exact rationals: candidate tables, minimum search, endpoint selection,
   horizontal / vertical lines, corner routing, attribute removal. *)
From Coq Require Import QArith Qabs Lqa Lia String List Bool ZArith Permutation.
From SvgdxModel Require Import Base.Str Base.Res Num.NumOps Gen.Tables Model.Types Model.Geom Model.Position
  Model.Scan Model.Element Model.Connector Proofs.TypesP Proofs.RelPosP Proofs.ContainP.
Import ListNotations.
Open Scope Q_scope.

Notation QP := (Q * Q)%type.
Notation QL := (locspec QOps).

(* ------------------------------------------------------------------ generated tables *)
Definition is_edge_mid (l : locname) : bool := match l with Top | Right | Bottom | Left => true | _ => false end.
Definition is_box_corner (l : locname) : bool :=
  match l with TopLeft | TopRight | BottomLeft | BottomRight => true | _ => false end.
Definition all_conntypes := [Horizontal; Vertical; Corner; Straight].
Definition all_dirs := [DUp; DRight; DDown; DLeft].
Definition row_len (ct : conntype) : nat :=
  match assoc (conntype_name ct) edge_locations_tbl with Some l => List.length l | None => 0%nat end.
(* every name of the generated table is a location; h / v / corner use edge mid-points only,
   straight lines edge mid-points and corners; no type has an empty candidate list *)
Definition candidates_ok (ct : conntype) : bool :=
  (Nat.eqb (List.length (edge_locnames ct)) (row_len ct) && negb (Nat.eqb (row_len ct) 0)
   && match ct with
      | Straight => forallb (fun l => is_edge_mid l || is_box_corner l) (edge_locnames ct)
      | _ => forallb is_edge_mid (edge_locnames ct) end)%bool.
Lemma candidates_table_ok : forallb candidates_ok all_conntypes = true.
Proof. vm_compute. reflexivity. Qed.
Lemma candidates_ok_all ct : candidates_ok ct = true.
Proof.
  pose proof candidates_table_ok as H. rewrite forallb_forall in H. apply H.
  destruct ct; cbn; tauto.
Qed.

Lemma in_edge_locations ct (l : QL) : In l (edge_locations QOps ct) -> exists n, l = LNamed n /\ In n (edge_locnames ct).
Proof. unfold edge_locations. rewrite in_map_iff. intros (n & <- & Hn). eauto. Qed.

Lemma candidates_are_edge_mids_or_corners ct (l : QL) : In l (edge_locations QOps ct) ->
  exists n, l = LNamed n /\ (is_edge_mid n = true \/ (ct = Straight /\ is_box_corner n = true)).
Proof.
  intros H. destruct (in_edge_locations _ _ H) as (n & -> & Hn). exists n. split; [reflexivity|].
  pose proof (candidates_ok_all ct) as Hc. unfold candidates_ok in Hc.
  apply andb_true_iff in Hc. destruct Hc as [_ Hc].
  destruct ct; rewrite forallb_forall in Hc; specialize (Hc n Hn);
    try (left; exact Hc).
  apply orb_true_iff in Hc. destruct Hc; [left | right]; auto.
Qed.
Lemma edge_locations_nonempty ct : edge_locations QOps ct <> [].
Proof.
  pose proof (candidates_ok_all ct) as Hc. unfold candidates_ok in Hc.
  apply andb_true_iff in Hc. destruct Hc as [Hc _]. apply andb_true_iff in Hc. destruct Hc as [H1 H2].
  apply Nat.eqb_eq in H1. unfold edge_locations. intros E. apply map_eq_nil in E. rewrite E in H1. cbn in H1.
  rewrite <- H1 in H2. cbn in H2. discriminate.
Qed.

(* direction of a location: edge mid-points and edge offsets point away from their edge, corners and
   the centre have none *)
Definition dir_of_locname (l : locname) : option direction :=
  match l with Top => Some DUp | Right => Some DRight | Bottom => Some DDown | Left => Some DLeft | _ => None end.
Definition dir_of_edge (e : edgename) : direction :=
  match e with TopEdge => DUp | RightEdge => DRight | BottomEdge => DDown | LeftEdge => DLeft end.
Lemma loc_to_dir_named (n : locname) : loc_to_dir QOps (LNamed n) = dir_of_locname n.
Proof. destruct n; vm_compute; reflexivity. Qed.
Lemma loc_to_dir_edge (e : edgename) (len : Geom.length QOps) : loc_to_dir QOps (LEdge e len) = Some (dir_of_edge e).
Proof. destruct e; vm_compute; reflexivity. Qed.

(* ------------------------------------------------------------------ the minimum search *)
Lemma Qltb_true a b : Qltb a b = true -> a < b.
Proof.
  unfold Qltb. intros H. apply negb_true_iff in H. apply Qnot_le_lt. intros Hle.
  apply Qle_bool_iff in Hle. congruence.
Qed.
Lemma Qltb_false a b : Qltb a b = false -> b <= a.
Proof. unfold Qltb. intros H. apply negb_false_iff in H. apply Qle_bool_iff. exact H. Qed.

Section Argmin.
Context {A : Type} (f : A -> Q).
Lemma argmin_cons x l init : argmin QOps f (x :: l) init = argmin QOps f l (argmin_step QOps f init x).
Proof. reflexivity. Qed.
Lemma argmin_spec : forall (l : list A) (init : Q * A),
  fst (argmin QOps f l init) <= fst init /\
  (forall x, In x l -> fst (argmin QOps f l init) <= f x) /\
  (argmin QOps f l init = init \/
   (In (snd (argmin QOps f l init)) l /\ fst (argmin QOps f l init) = f (snd (argmin QOps f l init)))).
Proof.
  induction l as [|x l IH]; intros init.
  - cbn. split; [apply Qle_refl|]. split; [tauto | now left].
  - rewrite argmin_cons. destruct (IH (argmin_step QOps f init x)) as (H1 & H2 & H3).
    unfold argmin_step in *. change (nltb QOps) with Qltb in *. cbv zeta in *.
    match goal with |- context [if ?c then _ else _] => destruct c eqn:E end.
    + apply Qltb_true in E. cbn [fst snd] in *. split; [eapply Qle_trans; [exact H1 | apply Qlt_le_weak; exact E]|]. split.
      * intros y [<-|Hy]; [exact H1 | apply H2; exact Hy].
      * right. destruct H3 as [H3|[H3 H4]].
        -- rewrite H3. cbn. split; [now left | reflexivity].
        -- split; [now right | exact H4].
    + apply Qltb_false in E. split; [exact H1|]. split.
      * intros y [<-|Hy]; [eapply Qle_trans; [exact H1 | exact E] | apply H2; exact Hy].
      * destruct H3 as [H3|[H3 H4]]; [now left | right; split; [now right | exact H4]].
Qed.
(* if some candidate is below the initial value, the result is a candidate of least value *)
Lemma argmin_minimal (l : list A) (m0 : Q) (a0 : A) :
  (exists x, In x l /\ f x < m0) ->
  In (snd (argmin QOps f l (m0, a0))) l /\
  forall x, In x l -> f (snd (argmin QOps f l (m0, a0))) <= f x.
Proof.
  intros (x0 & Hx0 & Hlt). destruct (argmin_spec l (m0, a0)) as (H1 & H2 & H3).
  destruct H3 as [H3|[H3 H4]].
  - exfalso. specialize (H2 x0 Hx0). rewrite H3 in H2. cbn [fst] in H2. exact (Qlt_irrefl _ (Qle_lt_trans _ _ _ H2 Hlt)).
  - split; [exact H3|]. intros x Hx. rewrite <- H4. apply H2. exact Hx.
Qed.
(* strict comparison: among equal minima the first one in list order is kept *)
Lemma argmin_first : forall (l : list A) (init : Q * A),
  (argmin QOps f l init = init /\ forall y, In y l -> fst init <= f y) \/
  (exists l1 l2, l = (l1 ++ snd (argmin QOps f l init) :: l2)%list /\
     f (snd (argmin QOps f l init)) < fst init /\
     (forall y, In y l1 -> f (snd (argmin QOps f l init)) < f y) /\
     (forall y, In y l2 -> f (snd (argmin QOps f l init)) <= f y)).
Proof.
  induction l as [|x l IH]; intros init.
  - left. split; [reflexivity | intros y []].
  - rewrite argmin_cons. specialize (IH (argmin_step QOps f init x)).
    unfold argmin_step in *. change (nltb QOps) with Qltb in *. cbv zeta in *.
    match goal with |- context [if ?c then _ else _] => destruct c eqn:E end.
    + apply Qltb_true in E. right. destruct IH as [[H1 H2]|(l1 & l2 & H1 & H2 & H3 & H4)].
      * exists [], l. rewrite H1. cbn [snd fst app] in *. split; [reflexivity|]. split; [exact E|].
        split; [intros y []|exact H2].
      * cbn [fst] in H2. exists (x :: l1), l2. split; [cbn [app]; rewrite <- H1; reflexivity|].
        split; [exact (Qlt_trans _ _ _ H2 E)|]. split; [|exact H4].
        intros y [<-|Hy]; [exact H2 | apply H3; exact Hy].
    + apply Qltb_false in E. destruct IH as [[H1 H2]|(l1 & l2 & H1 & H2 & H3 & H4)].
      * left. split; [exact H1|]. intros y [<-|Hy]; [exact E | apply H2; exact Hy].
      * right. exists (x :: l1), l2. split; [cbn [app]; rewrite <- H1; reflexivity|].
        split; [exact H2|]. split; [|exact H4].
        intros y [<-|Hy]; [exact (Qlt_le_trans _ _ _ H2 E) | apply H3; exact Hy].
Qed.
End Argmin.

Notation dsq := (dist_sq QOps).
Notation locpt := (bb_locspec QOps).

Lemma closest_loc_minimal (big : Q) (bb : QB) (pt : QP) (ct : conntype) :
  (exists l, In l (edge_locations QOps ct) /\ dsq (locpt bb l) pt < big) ->
  In (closest_loc_bb QOps big bb pt ct) (edge_locations QOps ct) /\
  forall c, In c (edge_locations QOps ct) ->
    dsq (locpt bb (closest_loc_bb QOps big bb pt ct)) pt <= dsq (locpt bb c) pt.
Proof.
  intros H. unfold closest_loc_bb.
  exact (argmin_minimal (fun loc => dsq (locpt bb loc) pt) _ big (LNamed Center) H).
Qed.

(* tie-breaking: the chosen location is the first candidate (in the order of the generated table) that
   attains the minimum *)
Lemma closest_loc_first (big : Q) (bb : QB) (pt : QP) (ct : conntype) :
  (exists l, In l (edge_locations QOps ct) /\ dsq (locpt bb l) pt < big) ->
  let r := closest_loc_bb QOps big bb pt ct in
  exists l1 l2, edge_locations QOps ct = (l1 ++ r :: l2)%list /\
    (forall y, In y l1 -> dsq (locpt bb r) pt < dsq (locpt bb y) pt) /\
    (forall y, In y l2 -> dsq (locpt bb r) pt <= dsq (locpt bb y) pt).
Proof.
  intros (l0 & Hl0 & Hlt). cbv zeta. unfold closest_loc_bb.
  set (f := fun loc : QL => dsq (locpt bb loc) pt).
  destruct (argmin_first f (edge_locations QOps ct) (big, LNamed Center)) as [[H1 H2]|(l1 & l2 & H1 & H2 & H3 & H4)].
  - exfalso. specialize (H2 l0 Hl0). cbn [fst] in H2. exact (Qlt_irrefl _ (Qle_lt_trans _ _ _ H2 Hlt)).
  - exists l1, l2. split; [exact H1|]. split; [exact H3 | exact H4].
Qed.
Lemma shortest_link_first (big : Q) (b1 b2 : QB) (ct : conntype) :
  (exists l1 l2, In l1 (edge_locations QOps ct) /\ In l2 (edge_locations QOps ct) /\
                 dsq (locpt b1 l1) (locpt b2 l2) < big) ->
  let r := shortest_link_bb QOps big b1 b2 ct in
  let d := fun p : QL * QL => dsq (locpt b1 (fst p)) (locpt b2 (snd p)) in
  exists p1 p2, list_prod (edge_locations QOps ct) (edge_locations QOps ct) = (p1 ++ r :: p2)%list /\
    (forall y, In y p1 -> d r < d y) /\ (forall y, In y p2 -> d r <= d y).
Proof.
  intros (l1 & l2 & Hl1 & Hl2 & Hlt). cbv zeta. unfold shortest_link_bb.
  set (f := fun p : QL * QL => dsq (locpt b1 (fst p)) (locpt b2 (snd p))).
  destruct (argmin_first f (list_prod (edge_locations QOps ct) (edge_locations QOps ct)) (big, (LNamed Center, LNamed Center)))
    as [[H1 H2]|(p1 & p2 & H1 & H2 & H3 & H4)].
  - exfalso. specialize (H2 (l1, l2) (in_prod _ _ _ _ Hl1 Hl2)). cbn [fst] in H2.
    exact (Qlt_irrefl _ (Qle_lt_trans _ _ _ H2 Hlt)).
  - exists p1, p2. split; [exact H1|]. split; [exact H3 | exact H4].
Qed.

Lemma shortest_link_minimal (big : Q) (b1 b2 : QB) (ct : conntype) :
  (exists l1 l2, In l1 (edge_locations QOps ct) /\ In l2 (edge_locations QOps ct) /\
                 dsq (locpt b1 l1) (locpt b2 l2) < big) ->
  let r := shortest_link_bb QOps big b1 b2 ct in
  In (fst r) (edge_locations QOps ct) /\ In (snd r) (edge_locations QOps ct) /\
  forall c1 c2, In c1 (edge_locations QOps ct) -> In c2 (edge_locations QOps ct) ->
    dsq (locpt b1 (fst r)) (locpt b2 (snd r)) <= dsq (locpt b1 c1) (locpt b2 c2).
Proof.
  intros (l1 & l2 & H1 & H2 & Hlt). unfold shortest_link_bb.
  set (f := fun p : QL * QL => dsq (locpt b1 (fst p)) (locpt b2 (snd p))).
  assert (Hex : exists x, In x (list_prod (edge_locations QOps ct) (edge_locations QOps ct)) /\ f x < big).
  { exists (l1, l2). split; [apply in_prod; assumption | exact Hlt]. }
  destruct (argmin_minimal f _ big (LNamed Center, LNamed Center) Hex) as [Hin Hmin].
  cbv zeta. destruct (snd (argmin QOps f _ _)) as [r1 r2] eqn:Er. cbn [fst snd] in *.
  apply in_prod_iff in Hin. destruct Hin as [Ha Hb]. split; [exact Ha|]. split; [exact Hb|].
  intros c1 c2 Hc1 Hc2. exact (Hmin (c1, c2) (in_prod _ _ _ _ Hc1 Hc2)).
Qed.

(* ------------------------------------------------------------------ endpoint selection (link) *)
Notation QE := (el QOps).
Notation QM := (emap QOps).
Notation QS := (epspec QOps).

Section Link.
Context (strp : string -> option Q) (big : Q).
Notation ebbox := (get_element_bbox QOps strp).
Notation cands := (edge_locations QOps).
Notation qlink := (link QOps strp big).
Notation qneed := (need_bbox QOps strp).

(* the endpoint specification fixes the point p: a literal point, or a location named on an element *)
Definition fixed_at (c : QM) (sp : QS) (p : QP) : Prop :=
  match sp with
  | EPoint q => p = q
  | ERef (Some e) (Some l) => exists bb, ebbox c e = Ok (Some bb) /\ p = locpt bb l
  | _ => False end.

Lemma need_bbox_ok c e bb : ebbox c e = Ok (Some bb) -> qneed c e = Ok bb.
Proof. intros H. unfold need_bbox. rewrite H. reflexivity. Qed.
Lemma need_bbox_inv c e bb : qneed c e = Ok bb -> ebbox c e = Ok (Some bb).
Proof. unfold need_bbox. destruct (ebbox c e) as [[b|]| | |]; cbn; congruence. Qed.

Ltac bind_need H :=
  match type of H with
  | context [need_bbox QOps strp ?c ?e] =>
      let E := fresh "Eb" in
      destruct (need_bbox QOps strp c e) eqn:E; cbn [bind] in H; try discriminate H
  end.

Lemma link_fixed_start c ct s e s' e' p : fixed_at c s p -> qlink c ct s e = Ok (s', e') -> eo s' = p.
Proof.
  intros Hf H. destruct s as [q|[sel|] [sl|]]; cbn [fixed_at] in Hf; try contradiction.
  - subst p. destruct e as [ep|[eel|] eloc]; cbn [link of_opt bind] in H; try discriminate H.
    + inversion H; reflexivity.
    + bind_need H. inversion H; reflexivity.
  - destruct Hf as (bb & Hb & ->). destruct e as [ep|[eel|] eloc]; cbn [link of_opt bind] in H; try discriminate H.
    + rewrite (need_bbox_ok _ _ _ Hb) in H. cbn [bind] in H. inversion H; reflexivity.
    + rewrite (need_bbox_ok _ _ _ Hb) in H. cbn [bind] in H. bind_need H.
      destruct eloc; inversion H; reflexivity.
Qed.
Lemma link_fixed_end c ct s e s' e' p : fixed_at c e p -> qlink c ct s e = Ok (s', e') -> eo e' = p.
Proof.
  intros Hf H. destruct e as [q|[eel|] [el_|]]; cbn [fixed_at] in Hf; try contradiction.
  - subst p. destruct s as [sp|[sel|] sloc]; cbn [link of_opt bind] in H; try discriminate H.
    + inversion H; reflexivity.
    + bind_need H. inversion H; reflexivity.
  - destruct Hf as (bb & Hb & ->). destruct s as [sp|[sel|] sloc]; cbn [link of_opt bind] in H; try discriminate H.
    + rewrite (need_bbox_ok _ _ _ Hb) in H. cbn [bind] in H. inversion H; reflexivity.
    + bind_need H. rewrite (need_bbox_ok _ _ _ Hb) in H. cbn [bind] in H.
      destruct sloc; inversion H; reflexivity.
Qed.

(* no location on either side: the chosen pair is a pair of candidates of least squared distance *)
Lemma link_auto_both c ct sel eel sb eb s' e' :
  ebbox c sel = Ok (Some sb) -> ebbox c eel = Ok (Some eb) ->
  qlink c ct (ERef (Some sel) None) (ERef (Some eel) None) = Ok (s', e') ->
  (exists l1 l2, In l1 (cands ct) /\ In l2 (cands ct) /\ dsq (locpt sb l1) (locpt eb l2) < big) ->
  exists l1 l2, In l1 (cands ct) /\ In l2 (cands ct) /\
    eo s' = locpt sb l1 /\ eo e' = locpt eb l2 /\ edir s' = loc_to_dir QOps l1 /\ edir e' = loc_to_dir QOps l2 /\
    forall c1 c2, In c1 (cands ct) -> In c2 (cands ct) -> dsq (eo s') (eo e') <= dsq (locpt sb c1) (locpt eb c2).
Proof.
  intros Hs He H Hex. cbn [link of_opt bind] in H.
  rewrite (need_bbox_ok _ _ _ Hs), (need_bbox_ok _ _ _ He) in H. cbn [bind] in H.
  destruct (shortest_link_minimal big sb eb ct Hex) as (H1 & H2 & H3).
  destruct (shortest_link_bb QOps big sb eb ct) as [l1 l2]. cbn [fst snd] in *.
  inversion H; subst s' e'. exists l1, l2. cbn [eo edir mkep]. repeat split; auto.
Qed.

(* a location on the other side only (literal point or named location): the chosen location is a
   candidate of least squared distance to that point *)
Lemma link_auto_start c ct sel sb e s' e' p :
  ebbox c sel = Ok (Some sb) -> fixed_at c e p ->
  qlink c ct (ERef (Some sel) None) e = Ok (s', e') ->
  (exists l, In l (cands ct) /\ dsq (locpt sb l) p < big) ->
  exists l1, In l1 (cands ct) /\ eo s' = locpt sb l1 /\ edir s' = loc_to_dir QOps l1 /\ eo e' = p /\
    forall c1, In c1 (cands ct) -> dsq (eo s') p <= dsq (locpt sb c1) p.
Proof.
  intros Hs Hf H Hex. pose proof (link_fixed_end _ _ _ _ _ _ _ Hf H) as Hend.
  destruct (closest_loc_minimal big sb p ct Hex) as [H1 H2].
  destruct e as [q|[eel|] [el_|]]; cbn [fixed_at] in Hf; try contradiction.
  - subst q. cbn [link of_opt bind] in H. rewrite (need_bbox_ok _ _ _ Hs) in H. cbn [bind] in H.
    inversion H; subst s' e'. eexists. cbn [eo edir mkep]. repeat split; eauto.
  - destruct Hf as (bb & Hb & ->). cbn [link of_opt bind] in H.
    rewrite (need_bbox_ok _ _ _ Hs), (need_bbox_ok _ _ _ Hb) in H. cbn [bind] in H.
    inversion H; subst s' e'. eexists. cbn [eo edir mkep]. repeat split; eauto.
Qed.
Lemma link_auto_end c ct eel eb s s' e' p :
  ebbox c eel = Ok (Some eb) -> fixed_at c s p ->
  qlink c ct s (ERef (Some eel) None) = Ok (s', e') ->
  (exists l, In l (cands ct) /\ dsq (locpt eb l) p < big) ->
  exists l2, In l2 (cands ct) /\ eo e' = locpt eb l2 /\ edir e' = loc_to_dir QOps l2 /\ eo s' = p /\
    forall c2, In c2 (cands ct) -> dsq (eo e') p <= dsq (locpt eb c2) p.
Proof.
  intros He Hf H Hex. pose proof (link_fixed_start _ _ _ _ _ _ _ Hf H) as Hst.
  destruct (closest_loc_minimal big eb p ct Hex) as [H1 H2].
  destruct s as [q|[sel|] [sl|]]; cbn [fixed_at] in Hf; try contradiction.
  - subst q. cbn [link of_opt bind] in H. rewrite (need_bbox_ok _ _ _ He) in H. cbn [bind] in H.
    inversion H; subst s' e'. eexists. cbn [eo edir mkep]. repeat split; eauto.
  - destruct Hf as (bb & Hb & ->). cbn [link of_opt bind] in H.
    rewrite (need_bbox_ok _ _ _ Hb), (need_bbox_ok _ _ _ He) in H. cbn [bind] in H.
    inversion H; subst s' e'. eexists. cbn [eo edir mkep]. repeat split; eauto.
Qed.

(* direction of a named endpoint *)
Lemma link_named_dir_start c ct sel l e s' e' :
  qlink c ct (ERef (Some sel) (Some l)) e = Ok (s', e') -> edir s' = loc_to_dir QOps l.
Proof.
  intros H. destruct e as [ep|[eel|] eloc]; cbn [link of_opt bind] in H; try discriminate H.
  - bind_need H. inversion H; reflexivity.
  - bind_need H. bind_need H. destruct eloc; inversion H; reflexivity.
Qed.
Lemma link_named_dir_end c ct eel l s s' e' :
  qlink c ct s (ERef (Some eel) (Some l)) = Ok (s', e') -> edir e' = loc_to_dir QOps l.
Proof.
  intros H. destruct s as [sp|[sel|] sloc]; cbn [link of_opt bind] in H; try discriminate H.
  - bind_need H. inversion H; reflexivity.
  - bind_need H. bind_need H. destruct sloc; inversion H; reflexivity.
Qed.
Lemma link_point_nodir_start c ct p e s' e' : qlink c ct (EPoint p) e = Ok (s', e') -> edir s' = None.
Proof.
  intros H. destruct e as [ep|[eel|] eloc]; cbn [link of_opt bind] in H; try discriminate H.
  - inversion H; reflexivity.
  - bind_need H. inversion H; reflexivity.
Qed.
Lemma link_point_nodir_end c ct p s s' e' : qlink c ct s (EPoint p) = Ok (s', e') -> edir e' = None.
Proof.
  intros H. destruct s as [sp|[sel|] sloc]; cbn [link of_opt bind] in H; try discriminate H.
  - inversion H; reflexivity.
  - bind_need H. inversion H; reflexivity.
Qed.

(* ---- strings to endpoint specifications, from_element to link ---- *)
Lemma extract_elref_plain s : starts_ref s = false -> extract_elref s = None.
Proof.
  destruct s as [|a r]; [reflexivity|]. cbn [starts_ref].
  destruct a as [[] [] [] [] [] [] [] []]; cbn; intros H; try reflexivity; discriminate H.
Qed.
Lemma parse_endpoint_literal c s a b rest x y :
  starts_ref s = false -> attr_split s = a :: b :: rest -> strp a = Some x -> strp b = Some y ->
  parse_endpoint QOps strp c s = Ok (@EPoint QOps (x, y)).
Proof.
  intros Hs Ha Hx Hy. unfold parse_endpoint, parse_el_loc. rewrite (extract_elref_plain _ Hs).
  unfold parse_point. rewrite Ha, Hx, Hy. reflexivity.
Qed.
Lemma parse_endpoint_ref c s r loc :
  parse_el_loc QOps strp s = Ok (r, loc) -> parse_endpoint QOps strp c s = Ok (ERef (get_element QOps c r) loc).
Proof. intros H. unfold parse_endpoint. rewrite H. reflexivity. Qed.

Lemma from_element_link c e ct k :
  from_element QOps strp big c e ct = Ok k ->
  exists sref eref s en,
    eget QOps e "start" = Some sref /\ eget QOps e "end" = Some eref /\
    parse_endpoint QOps strp c sref = Ok s /\ parse_endpoint QOps strp c eref = Ok en /\
    qlink c ct s en = Ok (cstart k, cend k) /\
    cstart_el k = spec_el QOps s /\ cend_el k = spec_el QOps en /\ ctype k = ct /\
    csrc k = eremove QOps e connector_popped.
Proof.
  unfold from_element. intros H.
  destruct (eget QOps e "start") as [sref|]; cbn [of_opt bind] in H; [|discriminate H].
  destruct (eget QOps e "end") as [eref|]; cbn [of_opt bind] in H; [|discriminate H].
  match type of H with bind ?r _ = _ => destruct r as [off| | |]; cbn [bind] in H; try discriminate H end.
  destruct (parse_endpoint QOps strp c sref) as [s| | |] eqn:Es; cbn [bind] in H; try discriminate H.
  destruct (parse_endpoint QOps strp c eref) as [en| | |] eqn:Ee; cbn [bind] in H; try discriminate H.
  destruct (link QOps strp big c ct s en) as [[sp ep]| | |] eqn:El; cbn [bind] in H; try discriminate H.
  inversion H; subst k; cbn. exists sref, eref, s, en. repeat split; auto.
Qed.
End Link.

(* ------------------------------------------------------------------ horizontal / vertical lines *)
Lemma overlap_mid_spec (lo1 hi1 lo2 hi2 : Q) :
  let lo := Qmax' lo1 lo2 in let hi := Qmin' hi1 hi2 in
  let m := overlap_mid QOps lo1 hi1 lo2 hi2 in
  m == (lo + hi) / 2 /\
  (lo <= hi -> lo <= m /\ m <= hi /\ lo1 <= m /\ m <= hi1 /\ lo2 <= m /\ m <= hi2).
Proof.
  cbv zeta. unfold overlap_mid. cbn [nadd ndiv nmax nmin QOps two nofZ].
  set (lo := Qmax' lo1 lo2). set (hi := Qmin' hi1 hi2).
  assert (E : (lo + hi) / inject_Z 2 == (lo + hi) / 2) by reflexivity.
  split; [exact E|]. intros Hle.
  pose proof (Qmax'_l lo1 lo2). pose proof (Qmax'_r lo1 lo2). pose proof (Qmin'_l hi1 hi2). pose proof (Qmin'_r hi1 hi2).
  fold lo in H, H0. fold hi in H1, H2.
  assert (Hm : (lo + hi) / inject_Z 2 == (lo + hi) * (1 # 2)) by (rewrite E; field).
  rewrite Hm. repeat split; lra.
Qed.

Section Render.
Context (strp : string -> option Q).
Notation ebbox := (get_element_bbox QOps strp).
Notation qneed := (need_bbox QOps strp).
Notation QK := (connector QOps).

Lemma qneed_ok c e bb : ebbox c e = Ok (Some bb) -> qneed c e = Ok bb.
Proof. intros H. unfold need_bbox. rewrite H. reflexivity. Qed.

Lemma render_horizontal c (k : QK) pts :
  ctype k = Horizontal -> render_points QOps strp c k = Ok pts ->
  exists m, pts = [(fst (eo (cstart k)), m); (fst (eo (cend k)), m)] /\
    (forall se ee sb eb, cstart_el k = Some se -> cend_el k = Some ee ->
       ebbox c se = Ok (Some sb) -> ebbox c ee = Ok (Some eb) ->
       m = overlap_mid QOps (by1 sb) (by2 sb) (by1 eb) (by2 eb)) /\
    ((cstart_el k = None \/ cend_el k = None) -> m = snd (eo (cstart k))).
Proof.
  intros Ht H. unfold render_points in H. rewrite Ht in H.
  destruct (eo (cstart k)) as [x1 y1]. destruct (eo (cend k)) as [x2 y2]. cbn [fst snd].
  destruct (cstart_el k) as [se|]; [destruct (cend_el k) as [ee|]|].
  - destruct (qneed c se) as [sb| | |] eqn:Es; cbn [bind] in H; try discriminate H.
    destruct (qneed c ee) as [eb| | |] eqn:Ee; cbn [bind] in H; try discriminate H.
    inversion H. eexists. split; [reflexivity|]. split.
    + intros se' ee' sb' eb' [= <-] [= <-] Hs He. rewrite (qneed_ok _ _ _ Hs) in Es. rewrite (qneed_ok _ _ _ He) in Ee.
      inversion Es; inversion Ee; reflexivity.
    + intros [X|X]; discriminate X.
  - cbn [bind] in H. inversion H. eexists. split; [reflexivity|]. split; [intros; discriminate | reflexivity].
  - cbn [bind] in H. inversion H. eexists. split; [reflexivity|]. split; [intros; discriminate | reflexivity].
Qed.
Lemma render_vertical c (k : QK) pts :
  ctype k = Vertical -> render_points QOps strp c k = Ok pts ->
  exists m, pts = [(m, snd (eo (cstart k))); (m, snd (eo (cend k)))] /\
    (forall se ee sb eb, cstart_el k = Some se -> cend_el k = Some ee ->
       ebbox c se = Ok (Some sb) -> ebbox c ee = Ok (Some eb) ->
       m = overlap_mid QOps (bx1 sb) (bx2 sb) (bx1 eb) (bx2 eb)) /\
    ((cstart_el k = None \/ cend_el k = None) -> m = fst (eo (cstart k))).
Proof.
  intros Ht H. unfold render_points in H. rewrite Ht in H.
  destruct (eo (cstart k)) as [x1 y1]. destruct (eo (cend k)) as [x2 y2]. cbn [fst snd].
  destruct (cstart_el k) as [se|]; [destruct (cend_el k) as [ee|]|].
  - destruct (qneed c se) as [sb| | |] eqn:Es; cbn [bind] in H; try discriminate H.
    destruct (qneed c ee) as [eb| | |] eqn:Ee; cbn [bind] in H; try discriminate H.
    inversion H. eexists. split; [reflexivity|]. split.
    + intros se' ee' sb' eb' [= <-] [= <-] Hs He. rewrite (qneed_ok _ _ _ Hs) in Es. rewrite (qneed_ok _ _ _ He) in Ee.
      inversion Es; inversion Ee; reflexivity.
    + intros [X|X]; discriminate X.
  - cbn [bind] in H. inversion H. eexists. split; [reflexivity|]. split; [intros; discriminate | reflexivity].
  - cbn [bind] in H. inversion H. eexists. split; [reflexivity|]. split; [intros; discriminate | reflexivity].
Qed.
Lemma render_straight c (k : QK) pts :
  ctype k = Straight -> render_points QOps strp c k = Ok pts -> pts = [eo (cstart k); eo (cend k)].
Proof.
  intros Ht H. unfold render_points in H. rewrite Ht in H.
  destruct (eo (cstart k)) as [x1 y1]. destruct (eo (cend k)) as [x2 y2]. inversion H; reflexivity.
Qed.

(* ------------------------------------------------------------------ corner routing *)
(* consecutive points related by R *)
Fixpoint consec {A} (R : A -> A -> Prop) (l : list A) : Prop :=
  match l with
  | a :: ((b :: _) as t) => R a b /\ consec R t
  | _ => True end.
Fixpoint consecb {A} (R : A -> A -> bool) (l : list A) : bool :=
  match l with
  | a :: ((b :: _) as t) => R a b && consecb R t
  | _ => true end.
Definition share_axis (a b : QP) : Prop := fst a = fst b \/ snd a = snd b.
Definition rectilinear (pts : list QP) : Prop := consec share_axis pts.
Definition vertical_dir (d : direction) : bool := match d with DUp | DDown => true | _ => false end.
(* the segment a-b is perpendicular to the edge a location with direction d lies on: it runs along
   the direction (vertical for Up / Down, horizontal for Left / Right) *)
Definition along (d : direction) (a b : QP) : Prop := if vertical_dir d then fst a = fst b else snd a = snd b.
Definition leaves_perp (d : direction) (pts : list QP) : Prop :=
  match pts with a :: b :: _ => along d a b | _ => False end.
Definition enters_perp (d : direction) (pts : list QP) : Prop := leaves_perp d (rev pts).

Definition share_axis_syn (a b : cvar * cvar) : bool := (cvar_eqb (fst a) (fst b) || cvar_eqb (snd a) (snd b))%bool.
Definition along_syn (d : direction) (a b : cvar * cvar) : bool :=
  if vertical_dir d then cvar_eqb (fst a) (fst b) else cvar_eqb (snd a) (snd b).
Definition leaves_syn (d : direction) (pts : list (cvar * cvar)) : bool :=
  match pts with a :: b :: _ => along_syn d a b | _ => false end.
Definition pt_eqb (a b : cvar * cvar) : bool := (cvar_eqb (fst a) (fst b) && cvar_eqb (snd a) (snd b))%bool.
Definition head_is (v : cvar * cvar) (pts : list (cvar * cvar)) : bool :=
  match pts with a :: _ => pt_eqb a v | [] => false end.
Definition plan_ok (sd ed : direction) (op : option plan) : bool :=
  match op with
  | None => false
  | Some p =>
      let pts := ppoints p in
      (Nat.leb 3 (List.length pts) && Nat.leb (List.length pts) 4
       && head_is (VX1, VY1) pts && head_is (VX2, VY2) (rev pts)
       && consecb share_axis_syn pts && leaves_syn sd pts && leaves_syn ed (rev pts))%bool
  end.
(* the generated 4 x 4 table: every pair of directions has a route, and every route is rectilinear,
   starts / ends at the two endpoints and leaves / enters along the endpoint directions *)
Lemma corner_table_ok :
  forallb (fun sd => forallb (fun ed => plan_ok sd ed (corner_plan sd ed)) all_dirs) all_dirs = true.
Proof. vm_compute. reflexivity. Qed.
Lemma corner_plan_ok sd ed : plan_ok sd ed (corner_plan sd ed) = true.
Proof.
  pose proof corner_table_ok as H. rewrite forallb_forall in H.
  assert (Hs : In sd all_dirs) by (destruct sd; cbn; tauto).
  specialize (H sd Hs). rewrite forallb_forall in H. apply H. destruct ed; cbn; tauto.
Qed.

Lemma cvar_eqb_eq a b : cvar_eqb a b = true -> a = b.
Proof. destruct a, b; cbn; congruence. Qed.

Section Eval.
Context (x1 y1 x2 y2 mid : Q).
Definition evpt (ab : cvar * cvar) : QP := (cval QOps x1 y1 x2 y2 mid (fst ab), cval QOps x1 y1 x2 y2 mid (snd ab)).
Lemma share_axis_ev a b : share_axis_syn a b = true -> share_axis (evpt a) (evpt b).
Proof.
  unfold share_axis_syn, share_axis, evpt. intros H. apply orb_true_iff in H.
  destruct H as [H|H]; apply cvar_eqb_eq in H; cbn [fst snd]; rewrite H; auto.
Qed.
Lemma along_ev d a b : along_syn d a b = true -> along d (evpt a) (evpt b).
Proof.
  unfold along_syn, along, evpt. destruct (vertical_dir d); intros H; apply cvar_eqb_eq in H; cbn [fst snd]; rewrite H; reflexivity.
Qed.
Lemma consec_ev : forall l, consecb share_axis_syn l = true -> rectilinear (map evpt l).
Proof.
  induction l as [|a [|b t] IH]; cbn [consecb map consec rectilinear]; auto.
  intros H. apply andb_true_iff in H. destruct H as [H1 H2]. split; [apply share_axis_ev; exact H1 | apply IH; exact H2].
Qed.
Lemma leaves_ev d l : leaves_syn d l = true -> leaves_perp d (map evpt l).
Proof. destruct l as [|a [|b t]]; cbn; try discriminate. apply along_ev. Qed.
Lemma head_ev v l : head_is v l = true -> hd_error (map evpt l) = Some (evpt v).
Proof.
  destruct l as [|a t]; cbn; [discriminate|]. unfold pt_eqb. intros H. apply andb_true_iff in H. destruct H as [H1 H2].
  apply cvar_eqb_eq in H1. apply cvar_eqb_eq in H2. destruct a as [a1 a2], v as [v1 v2]. cbn in *. subst. reflexivity.
Qed.
End Eval.

Lemma eval_plan_spec sd ed p off x1 y1 x2 y2 pts :
  plan_ok sd ed (Some p) = true -> eval_plan QOps p off x1 y1 x2 y2 = Ok pts ->
  rectilinear pts /\ leaves_perp sd pts /\ enters_perp ed pts /\
  hd_error pts = Some (x1, y1) /\ hd_error (rev pts) = Some (x2, y2) /\
  (3 <= List.length pts <= 4)%nat.
Proof.
  unfold plan_ok, eval_plan. intros Hok H.
  destruct (plan_mid QOps p off x1 y1 x2 y2) as [mid| | |]; cbn [bind] in H; try discriminate H.
  inversion H as [Hp]. clear H.
  repeat (apply andb_true_iff in Hok; destruct Hok as [Hok ?]).
  change (fun ab : cvar * cvar => (cval QOps x1 y1 x2 y2 mid (fst ab), cval QOps x1 y1 x2 y2 mid (snd ab)))
    with (evpt x1 y1 x2 y2 mid).
  split; [apply consec_ev; assumption|]. split; [apply leaves_ev; assumption|].
  split; [unfold enters_perp; rewrite <- map_rev; apply leaves_ev; assumption|].
  split; [match goal with Hh : head_is (VX1, VY1) _ = true |- _ => exact (head_ev x1 y1 x2 y2 mid (VX1, VY1) _ Hh) end|].
  split; [rewrite <- map_rev; match goal with Hh : head_is (VX2, VY2) _ = true |- _ => exact (head_ev x1 y1 x2 y2 mid (VX2, VY2) _ Hh) end|].
  rewrite map_length. split; [apply Nat.leb_le; assumption | apply Nat.leb_le; assumption].
Qed.

Lemma render_corner c (k : QK) pts sd ed :
  ctype k = Corner -> edir (cstart k) = Some sd -> edir (cend k) = Some ed ->
  render_points QOps strp c k = Ok pts ->
  rectilinear pts /\ leaves_perp sd pts /\ enters_perp ed pts /\
  hd_error pts = Some (eo (cstart k)) /\ hd_error (rev pts) = Some (eo (cend k)) /\
  (3 <= List.length pts <= 4)%nat.
Proof.
  intros Ht Hs He H. unfold render_points in H. rewrite Ht, Hs, He in H.
  destruct (eo (cstart k)) as [x1 y1]. destruct (eo (cend k)) as [x2 y2].
  pose proof (corner_plan_ok sd ed) as Hok. destruct (corner_plan sd ed) as [p|]; [|discriminate Hok].
  exact (eval_plan_spec sd ed p _ _ _ _ _ _ Hok H).
Qed.
(* without a direction on one of the two sides the connection is the straight segment *)
Lemma render_corner_nodir c (k : QK) pts :
  ctype k = Corner -> (edir (cstart k) = None \/ edir (cend k) = None) ->
  render_points QOps strp c k = Ok pts -> pts = [eo (cstart k); eo (cend k)].
Proof.
  intros Ht Hd H. unfold render_points in H. rewrite Ht in H.
  destruct (eo (cstart k)) as [x1 y1]. destruct (eo (cend k)) as [x2 y2].
  destruct Hd as [Hd|Hd]; rewrite Hd in H; [|destruct (edir (cstart k))]; inversion H; reflexivity.
Qed.

(* a corner route is rejected only for a U shape (equal directions) with a percentage offset *)
Lemma corner_rejects_only_ratio_u c (k : QK) sd ed :
  ctype k = Corner -> edir (cstart k) = Some sd -> edir (cend k) = Some ed ->
  is_ok (render_points QOps strp c k) = true \/ (sd = ed /\ exists r, coffset k = Some (Ratio r)).
Proof.
  intros Ht Hs He. unfold render_points. rewrite Ht, Hs, He.
  destruct (eo (cstart k)) as [x1 y1]. destruct (eo (cend k)) as [x2 y2].
  destruct (coffset k) as [[a|r]|];
    destruct sd, ed; try (left; vm_compute; reflexivity); right; (split; [reflexivity | eexists; reflexivity]).
Qed.
End Render.

(* ------------------------------------------------------------------ attribute removal *)
Section Attrs.
Context (N : NumOps) (strp : string -> option (num N)) (fstr : num N -> string) (big : num N).

Lemma notin_keys_reorder a k : ~ In k (keys a) -> ~ In k (keys (reorder a)).
Proof. intros H Hin. apply H. eapply Permutation_in; [apply Permutation_sym, keys_reorder_perm | exact Hin]. Qed.
Lemma notin_keys_upd a k k2 v : ~ In k (keys a) -> ~ In k (keys (upd a k2 v)).
Proof. rewrite keys_upd. auto. Qed.
Lemma notin_keys_set a k k2 v : k <> k2 -> ~ In k (keys a) -> ~ In k (keys (set a k2 v)).
Proof.
  intros Hne H. unfold set. apply notin_keys_reorder. destruct (has a k2).
  - apply notin_keys_upd. exact H.
  - unfold keys. rewrite map_app. intros Hin. apply in_app_or in Hin. destruct Hin as [Hin|[Hin|[]]]; [exact (H Hin) | cbn in Hin; congruence].
Qed.
Lemma notin_keys_update b : forall a k, ~ In k (keys a) -> ~ In k (keys b) -> ~ In k (keys (update a b)).
Proof.
  unfold update. induction b as [|[k2 v] b IH]; cbn [fold_left]; intros a k Ha Hb; [exact Ha|].
  apply IH.
  - apply notin_keys_set; [|exact Ha]. intros ->. apply Hb. cbn. now left.
  - intros Hin. apply Hb. cbn. now right.
Qed.
Lemma notin_keys_filter (a : attrs) key k : ~ In k (keys a) -> ~ In k (keys (filter (fun kv => negb (String.eqb (fst kv) key)) a)).
Proof.
  intros H Hin. apply H. unfold keys in *. apply in_map_iff in Hin. destruct Hin as (kv & <- & Hkv).
  apply filter_In in Hkv. apply in_map. tauto.
Qed.
Lemma key_notin_filter (a : attrs) key : ~ In key (keys (filter (fun kv => negb (String.eqb (fst kv) key)) a)).
Proof.
  intros Hin. unfold keys in Hin. apply in_map_iff in Hin. destruct Hin as (kv & E & Hkv).
  apply filter_In in Hkv. destruct Hkv as [_ Hkv]. rewrite E, String.eqb_refl in Hkv. discriminate.
Qed.
Lemma without_attr_other (e : el N) key k :
  ~ In k (keys (eattrs N e)) -> ~ In k (keys (eattrs N (without_attr N e key))).
Proof. intros H. unfold without_attr, of_vec. cbn [eattrs with_attrs]. apply notin_keys_reorder, notin_keys_filter, H. Qed.
Lemma without_attr_same (e : el N) key : ~ In key (keys (eattrs N (without_attr N e key))).
Proof. unfold without_attr, of_vec. cbn [eattrs with_attrs]. apply notin_keys_reorder, key_notin_filter. Qed.
Lemma fold_without_other ks : forall (e : el N) k,
  ~ In k (keys (eattrs N e)) -> ~ In k (keys (eattrs N (fold_left (without_attr N) ks e))).
Proof. induction ks as [|x ks IH]; cbn [fold_left]; intros e k H; [exact H | apply IH, without_attr_other, H]. Qed.
Lemma fold_without_in ks : forall (e : el N) k, In k ks -> ~ In k (keys (eattrs N (fold_left (without_attr N) ks e))).
Proof.
  induction ks as [|x ks IH]; cbn [fold_left]; intros e k Hin; [contradiction|].
  destruct Hin as [->|Hin]; [apply fold_without_other, without_attr_same | apply IH, Hin].
Qed.

(* keys of the freshly built line / polyline *)
Lemma new_el_keys name (l : attrs) k :
  ~ In k (keys l) -> ~ In k (keys (eattrs N (new_el N name l))).
Proof.
  unfold new_el. cbn [eattrs].
  assert (G : forall (l : attrs) acc, ~ In k (keys l) -> ~ In k (keys acc) ->
             ~ In k (keys (fold_left (fun acc kv => if String.eqb (fst kv) "class" then acc else set acc (fst kv) (snd kv)) l acc))).
  { clear l. induction l as [|[k2 v] l IH]; cbn [fold_left]; intros acc Hl Ha; [exact Ha|].
    apply IH; [intros Hin; apply Hl; cbn; now right|].
    cbn [fst snd]. destruct (String.eqb k2 "class"); [exact Ha|].
    apply notin_keys_set; [|exact Ha]. intros ->. apply Hl. cbn. now left. }
  intros H. apply G; [exact H | cbn; tauto].
Qed.

Lemma conn_element_keys pts (src : el N) k :
  ~ In k ["x1"; "y1"; "x2"; "y2"; "points"]%string -> ~ In k (keys (eattrs N src)) ->
  ~ In k (keys (eattrs N (conn_element N fstr pts src))).
Proof.
  intros Hk Hsrc. unfold conn_element.
  assert (G : forall name l, ~ In k (keys l) -> ~ In k (keys (eattrs N (with_attrs_from N (new_el N name l) src)))).
  { intros name l Hl. unfold with_attrs_from. cbn [eattrs with_name with_attrs].
    apply notin_keys_update; [apply new_el_keys; exact Hl | exact Hsrc]. }
  destruct pts as [|a [|b [|c t]]]; apply G; cbn; intros Hin; apply Hk; cbn; tauto.
Qed.

Definition property_attrs : list string := ["start"; "end"; "edge-type"; "corner-offset"]%string.
(* the generated lists of popped / removed attribute names cover the four names of the property *)
Lemma removed_tables_cover :
  forallb (fun k => mem_str k connector_popped || mem_str k connector_removed_after)%bool property_attrs = true.
Proof. vm_compute. reflexivity. Qed.
Lemma mem_str_in k l : mem_str k l = true -> In k l.
Proof.
  induction l as [|x l IH]; cbn; [discriminate|]. destruct (String.eqb k x) eqn:E; [apply String.eqb_eq in E; auto | auto].
Qed.

Lemma transmute_conn_removes c (e e' : el N) k :
  is_connector N e = true -> transmute_conn N strp fstr big c e = Ok e' ->
  NoDup (keys (eattrs N e)) -> In k property_attrs -> eget N e' k = None.
Proof.
  intros Hc H Hnd Hk. unfold transmute_conn in H. rewrite Hc in H.
  destruct (from_element N strp big c e (conn_type_of N e)) as [kk| | |] eqn:Ef; try discriminate H.
  unfold render in H. destruct (render_points N strp c kk) as [pts| | |]; cbn [bind] in H; try discriminate H.
  injection H as <-. unfold eget. apply get_none_notin.
  match goal with |- ~ In k (keys (eattrs N ?x)) =>
    change x with (fold_left (without_attr N) connector_removed_after (conn_element N fstr pts (csrc kk))) end.
  pose proof removed_tables_cover as Hcov. rewrite forallb_forall in Hcov. specialize (Hcov k Hk).
  apply orb_true_iff in Hcov. destruct Hcov as [Hp|Hr].
  - apply mem_str_in in Hp. apply fold_without_other. apply conn_element_keys.
    + intros Hin. revert Hk Hin. unfold property_attrs. cbn. intuition congruence.
    + (* csrc kk = eremove e connector_popped *)
      assert (Es : csrc kk = eremove N e connector_popped).
      { unfold from_element in Ef.
        destruct (eget N e "start"); cbn [of_opt bind] in Ef; [|discriminate Ef].
        destruct (eget N e "end"); cbn [of_opt bind] in Ef; [|discriminate Ef].
        match type of Ef with bind ?r _ = _ => destruct r; cbn [bind] in Ef; try discriminate Ef end.
        match type of Ef with bind ?r _ = _ => destruct r; cbn [bind] in Ef; try discriminate Ef end.
        match type of Ef with bind ?r _ = _ => destruct r; cbn [bind] in Ef; try discriminate Ef end.
        match type of Ef with bind ?r _ = _ => destruct r as [[? ?]| | |]; cbn [bind] in Ef; try discriminate Ef end.
        inversion Ef; reflexivity. }
      rewrite Es. unfold eremove. cbn [eattrs with_attrs]. apply get_none_notin.
      apply get_remove_attrs_in; [exact Hnd | exact Hp].
  - apply mem_str_in in Hr. apply fold_without_in. exact Hr.
Qed.
End Attrs.

(* ------------------------------------------------------------------ default offsets of the corner routes *)
Lemma plan_default_ratio : plan_default QOps "default_ratio_offset" = Some (@Ratio QOps (5 # 10)).
Proof. vm_compute. reflexivity. Qed.
Lemma plan_default_abs : plan_default QOps "default_abs_offset" = Some (@Absolute QOps (3 # 1)).
Proof. vm_compute. reflexivity. Qed.
(* without corner-offset: Z routes bend midway between the two endpoints, U routes pass 3 units
   beyond the outermost of the two endpoints, on the side the edges face *)
Definition default_mid_spec (sd ed : direction) (x1 y1 x2 y2 m : Q) : Prop :=
  match sd, ed with
  | DLeft, DRight | DRight, DLeft => m == (x1 + x2) / 2
  | DUp, DDown | DDown, DUp => m == (y1 + y2) / 2
  | DLeft, DLeft => m == Qmin' x1 x2 - 3
  | DRight, DRight => m == Qmax' x1 x2 + 3
  | DUp, DUp => m == Qmin' y1 y2 - 3
  | DDown, DDown => m == Qmax' y1 y2 + 3
  | _, _ => True
  end.
Lemma corner_default_mid sd ed p x1 y1 x2 y2 m :
  corner_plan sd ed = Some p -> plan_mid QOps p None x1 y1 x2 y2 = Ok m -> default_mid_spec sd ed x1 y1 x2 y2 m.
Proof.
  intros Hp Hm. unfold default_mid_spec.
  destruct sd, ed; try exact I; vm_compute in Hp; injection Hp as <-;
    unfold plan_mid in Hm; cbn [pmid pdflt pa pb cval] in Hm;
    try rewrite plan_default_ratio in Hm; try rewrite plan_default_abs in Hm;
    cbn [len_calc_offset len_absolute bind] in Hm; injection Hm as <-;
    cbn [nadd nsub nmul nmin nmax QOps]; try field; try reflexivity.
Qed.

(* ------------------------------------------------------------------ statements in their final form *)
Section Final.
Context (strp : string -> option Q) (big : Q).
Notation ebbox := (get_element_bbox QOps strp).
Notation cands := (edge_locations QOps).
Notation qlink := (link QOps strp big).

Lemma named_loc_final c ct s e s' e' :
  qlink c ct s e = Ok (s', e') ->
  (forall el_ l bb, s = ERef (Some el_) (Some l) -> ebbox c el_ = Ok (Some bb) ->
     eo s' = locpt bb l /\ edir s' = loc_to_dir QOps l) /\
  (forall el_ l bb, e = ERef (Some el_) (Some l) -> ebbox c el_ = Ok (Some bb) ->
     eo e' = locpt bb l /\ edir e' = loc_to_dir QOps l).
Proof.
  intros H. split; intros el_ l bb -> Hb.
  - assert (Hf : fixed_at strp c (ERef (Some el_) (Some l)) (locpt bb l)) by (cbn; eauto).
    split; [exact (link_fixed_start strp big _ _ _ _ _ _ _ Hf H) | exact (link_named_dir_start strp big _ _ _ _ _ _ _ H)].
  - assert (Hf : fixed_at strp c (ERef (Some el_) (Some l)) (locpt bb l)) by (cbn; eauto).
    split; [exact (link_fixed_end strp big _ _ _ _ _ _ _ Hf H) | exact (link_named_dir_end strp big _ _ _ _ _ _ _ H)].
Qed.
Lemma literal_final c ct s e s' e' :
  qlink c ct s e = Ok (s', e') ->
  (forall p, s = EPoint p -> eo s' = p /\ edir s' = None) /\
  (forall p, e = EPoint p -> eo e' = p /\ edir e' = None).
Proof.
  intros H. split; intros p ->.
  - assert (Hf : fixed_at strp c (EPoint p) p) by reflexivity.
    split; [exact (link_fixed_start strp big _ _ _ _ _ _ _ Hf H) | exact (link_point_nodir_start strp big _ _ _ _ _ _ H)].
  - assert (Hf : fixed_at strp c (EPoint p) p) by reflexivity.
    split; [exact (link_fixed_end strp big _ _ _ _ _ _ _ Hf H) | exact (link_point_nodir_end strp big _ _ _ _ _ _ H)].
Qed.

Lemma hv_horizontal_final c (k : connector QOps) pts :
  ctype k = Horizontal -> render_points QOps strp c k = Ok pts ->
  exists m, pts = [(fst (eo (cstart k)), m); (fst (eo (cend k)), m)] /\
    (forall se ee sb eb, cstart_el k = Some se -> cend_el k = Some ee ->
       ebbox c se = Ok (Some sb) -> ebbox c ee = Ok (Some eb) ->
       let lo := Qmax' (by1 sb) (by1 eb) in let hi := Qmin' (by2 sb) (by2 eb) in
       m == (lo + hi) / 2 /\
       (lo <= hi -> by1 sb <= m /\ m <= by2 sb /\ by1 eb <= m /\ m <= by2 eb)) /\
    ((cstart_el k = None \/ cend_el k = None) -> m = snd (eo (cstart k))).
Proof.
  intros Ht H. destruct (render_horizontal strp c k pts Ht H) as (m & Hp & Hm & Hn).
  exists m. split; [exact Hp|]. split; [|exact Hn].
  intros se ee sb eb Hs He Hsb Heb. rewrite (Hm se ee sb eb Hs He Hsb Heb).
  destruct (overlap_mid_spec (by1 sb) (by2 sb) (by1 eb) (by2 eb)) as [E R]. cbv zeta.
  split; [exact E|]. intros Hle. specialize (R Hle). tauto.
Qed.
Lemma hv_vertical_final c (k : connector QOps) pts :
  ctype k = Vertical -> render_points QOps strp c k = Ok pts ->
  exists m, pts = [(m, snd (eo (cstart k))); (m, snd (eo (cend k)))] /\
    (forall se ee sb eb, cstart_el k = Some se -> cend_el k = Some ee ->
       ebbox c se = Ok (Some sb) -> ebbox c ee = Ok (Some eb) ->
       let lo := Qmax' (bx1 sb) (bx1 eb) in let hi := Qmin' (bx2 sb) (bx2 eb) in
       m == (lo + hi) / 2 /\
       (lo <= hi -> bx1 sb <= m /\ m <= bx2 sb /\ bx1 eb <= m /\ m <= bx2 eb)) /\
    ((cstart_el k = None \/ cend_el k = None) -> m = fst (eo (cstart k))).
Proof.
  intros Ht H. destruct (render_vertical strp c k pts Ht H) as (m & Hp & Hm & Hn).
  exists m. split; [exact Hp|]. split; [|exact Hn].
  intros se ee sb eb Hs He Hsb Heb. rewrite (Hm se ee sb eb Hs He Hsb Heb).
  destruct (overlap_mid_spec (bx1 sb) (bx2 sb) (bx1 eb) (bx2 eb)) as [E R]. cbv zeta.
  split; [exact E|]. intros Hle. specialize (R Hle). tauto.
Qed.

Lemma corner_axis_parallel_final c (k : connector QOps) pts sd ed :
  ctype k = Corner -> edir (cstart k) = Some sd -> edir (cend k) = Some ed ->
  render_points QOps strp c k = Ok pts ->
  rectilinear pts /\ hd_error pts = Some (eo (cstart k)) /\ hd_error (rev pts) = Some (eo (cend k)) /\
  (3 <= List.length pts <= 4)%nat.
Proof. intros Ht Hs He H. destruct (render_corner strp c k pts sd ed Ht Hs He H) as (A & B & C & D & E & F). auto. Qed.
Lemma corner_perpendicular_final c (k : connector QOps) pts sd ed :
  ctype k = Corner -> edir (cstart k) = Some sd -> edir (cend k) = Some ed ->
  render_points QOps strp c k = Ok pts -> leaves_perp sd pts /\ enters_perp ed pts.
Proof. intros Ht Hs He H. destruct (render_corner strp c k pts sd ed Ht Hs He H) as (A & B & C & D & E & F). auto. Qed.
End Final.
