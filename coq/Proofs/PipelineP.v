(* The stack discipline of the pipeline: whatever the evaluator and the leaf generator do, every generator
   leaves the element stack as it found it, leaves every scope below the top one untouched (and the top one
   in place), and restores the depth counter up to the number of depth-limit failures that occurred. *)
From Coq Require Import String Ascii List Bool ZArith Lia.
From SvgdxModel Require Import Base.Str Base.Res Num.F32 Num.F64 Num.NumOps Gen.Tables Model.Types Model.Geom
  Model.Position Model.Scan Model.Element Model.Xml Model.Pipeline.
Import ListNotations.
Open Scope string_scope.

Section P.
Context (N : NumOps) (ES : Type)
  (eva : (string -> option string) -> emap N -> string -> ES -> res (string * ES))
  (evc : (string -> option string) -> emap N -> string -> ES -> res (bool * ES))
  (evl : (string -> option string) -> emap N -> string -> ES -> res (list string * ES))
  (leaf : pctx N ES -> el N -> res (evs * option (bbox N)) * lst N ES)
  (el_bbox_of : el N -> res (option (bbox N)))
  (instantiate : pctx N ES -> el N -> el N -> res (el N) * lst N ES)
  (kidtab : Z -> option (list (node N)))
  (clip : pctx N ES -> el N -> option (bbox N) -> res (option (bbox N)) * lst N ES)
  (text_unescape : string -> string).
Local Notation pctx := (pctx N ES).
Local Notation gen := (gen N ES eva evc evl leaf el_bbox_of instantiate kidtab clip text_unescape).
Local Notation dispatch := (dispatch N ES eva evc evl leaf el_bbox_of instantiate kidtab clip text_unescape).
Local Notation process_events := (process_events N ES eva evc evl leaf el_bbox_of instantiate kidtab clip text_unescape).
Local Notation retry := (retry N ES eva evc evl leaf el_bbox_of instantiate kidtab clip text_unescape).
Local Notation pass := (pass N ES eva evc evl leaf el_bbox_of instantiate kidtab clip text_unescape).
Local Notation gen_tag := (gen_tag N ES eva evc evl leaf el_bbox_of instantiate kidtab clip text_unescape).
Local Notation gen_group := (gen_group N ES eva evc evl leaf el_bbox_of instantiate kidtab clip text_unescape).
Local Notation gen_container := (gen_container N ES eva evc evl leaf el_bbox_of instantiate kidtab clip text_unescape).
Local Notation gen_specs := (gen_specs N ES eva evc evl leaf el_bbox_of instantiate kidtab clip text_unescape).
Local Notation gen_if := (gen_if N ES eva evc evl leaf el_bbox_of instantiate kidtab clip text_unescape).
Local Notation gen_loop := (gen_loop N ES eva evc evl leaf el_bbox_of instantiate kidtab clip text_unescape).
Local Notation loop_iter := (loop_iter N ES eva evc evl leaf el_bbox_of instantiate kidtab clip text_unescape).
Local Notation gen_for := (gen_for N ES eva evc evl leaf el_bbox_of instantiate kidtab clip text_unescape).
Local Notation for_iter := (for_iter N ES eva evc evl leaf el_bbox_of instantiate kidtab clip text_unescape).
Local Notation gen_reuse := (gen_reuse N ES eva evc evl leaf el_bbox_of instantiate kidtab clip text_unescape).
Local Notation eval_attr := (eval_attr N ES eva).
Local Notation eval_cond := (eval_cond N ES evc).
Local Notation eval_lst := (eval_lst N ES evl).
Local Notation eval_attributes := (eval_attributes N ES eva).
Local Notation update_element := (update_element N ES eva).
Local Notation gen_var := (gen_var N ES eva).

Local Notation el := (el N).
Local Notation bbox := (bbox N).
Local Notation node := (node N).
Local Notation tag := (tag N).
Local Notation inc_depth := (inc_depth N ES).
Local Notation dec_depth := (dec_depth N ES).
Local Notation with_l := (with_l N ES).
Local Notation with_specs := (with_specs N ES).
Local Notation with_scopes := (with_scopes N ES).
Local Notation with_real := (with_real N ES).
Local Notation push_element := (push_element N ES).
Local Notation pop_element := (pop_element N ES).
Local Notation set_prev := (set_prev N ES).
Local Notation oel := (oel N).
Local Notation raw_events := (raw_events N).
Local Notation tagify := (tagify N).
Local Notation first_real_svg := (first_real_svg N).
Local Notation bb_opt_union := (bb_opt_union N).
Local Notation is_graphics := (is_graphics N).
Local Notation "'inner_text_go''" := (inner_text_go' N text_unescape).
Local Notation ok0 := (ok0 N ES).
Local Notation gen_config := (gen_config N ES).
Local Notation rbind := (rbind N ES).
Local Notation R := (R N ES).
Local Notation px_scopes := (px_scopes N ES).
Local Notation px_estack := (px_estack N ES).
Local Notation px_specs := (px_specs N ES).
Local Notation px_cfg := (px_cfg N ES).
Local Notation px_l := (px_l N ES).
Local Notation l_orig := (l_orig N ES).
Local Notation l_prev := (l_prev N ES).
Local Arguments pr_fatal {N}. Local Arguments pr_out {N}. Local Arguments pr_bb {N}. Local Arguments pr_rem {N}.
Local Notation passres := (passres N).
Local Arguments TgEl {N}. Local Arguments TgComment {N}. Local Arguments TgText {N}. Local Arguments TgCData {N}.
Local Arguments NEl {N}. Local Arguments NLeaf {N}. Local Arguments NComment {N}. Local Arguments NText {N}. Local Arguments NCData {N}. Local Arguments NOther {N}.
Local Notation "'dor' x , c <- r ; k" := (rbind r (fun x c => k)) (at level 200, x name, c name, r at level 100, k at level 200).

(* ---- one-step unfolding equations of the mutual block (text generated from Model/Pipeline.v) ---- *)
Lemma gen_S f (e : el) (kids : option (list node)) (c : pctx) :
  gen (S f) e kids c =
  (match inc_depth c with
  | (Ok _, c1) =>
      let '(r, c2) := dispatch f e kids c1 in
      match dec_depth c2 with
      | (Ok _, c3) =>
          match r with
          | Ok (ev, b) => match clip c3 e b with
                          | (Ok b', l) => (Ok (ev, b'), with_l c3 l)
                          | (Err k, l) => (Err k, with_l c3 l) | (Panic s, l) => (Panic s, with_l c3 l)
                          | (OutOfFuel, l) => (OutOfFuel, with_l c3 l) end
          | _ => (r, c3) end
      | (Err k, c3) => (Err k, c3) | (Panic s, c3) => (Panic s, c3) | (OutOfFuel, c3) => (OutOfFuel, c3)
      end
  | (Err k, c1) => (Err k, c1) | (Panic s, c1) => (Panic s, c1) | (OutOfFuel, c1) => (OutOfFuel, c1)
  end).
Proof. reflexivity. Qed.

Lemma dispatch_S f (e : el) (kids : option (list node)) (c : pctx) :
  dispatch (S f) e kids c =
  (let kind := match assoc (ename N e) dispatch_table with Some k => k | None => "" end in
  if String.eqb kind "LoopElement" then gen_loop f e kids c
  else if String.eqb kind "ConfigElement" then gen_config e c
  else if String.eqb kind "ReuseElement" then gen_reuse f e c
  else if String.eqb kind "SpecsElement" then gen_specs f e kids c
  else if String.eqb kind "VarElement" then gen_var (eattrs N e) [] c
  else if String.eqb kind "IfElement" then gen_if f e kids c
  else if String.eqb kind "DefaultsElement" then ok0 c
  else if String.eqb kind "ForElement" then gen_for f e kids c
  else if String.eqb kind "GroupElement" then gen_group f e kids c
  else match kids with
       | Some ks => gen_container f e ks c
       | None => let '(r, l) := leaf c e in (r, with_l c l)
       end).
Proof. reflexivity. Qed.

Lemma process_events_S f (ns : list node) (c : pctx) :
  process_events (S f) ns c =
  (if first_real_svg ns then
    (Ok (flat_map raw_events ns, None), match px_estack c with [] => with_real c true | _ => c end)
  else
    let tags := tagify ns in
    retry f (List.length tags) (combine (seq 0 (List.length tags)) tags) [] None c).
Proof. reflexivity. Qed.

Lemma retry_S f (passes : nat) (pending : list (nat * tag)) (out : list (nat * evs)) (bb : option bbox) (c : pctx) :
  retry (S f) passes pending out bb c =
  (match pending with
  | [] => (Ok (flat_map snd (sort_out out), bb), c)
  | _ =>
      let '(pr, c1) := pass f pending c in
      match pr_fatal pr with
      | Some k => (Err k, c1)
      | None =>
          let out' := (out ++ pr_out pr)%list in
          let bb' := bb_opt_union bb (pr_bb pr) in
          if Nat.eqb (List.length (pr_rem pr)) (List.length pending) then (Err EMulti, c1)
          else match passes with
               | O => (OutOfFuel, c1)
               | S p => retry f p (pr_rem pr) out' bb' c1 end
      end
  end).
Proof. reflexivity. Qed.

Lemma pass_S f (pending : list (nat * tag)) (c : pctx) :
  pass (S f) pending c =
  (match pending with
  | [] => ({| pr_out := []; pr_bb := None; pr_rem := []; pr_fatal := None |}, c)
  | (i, t) :: r =>
      let c0 := match t with TgEl e _ _ => update_element c e | _ => c end in
      let '(res1, c1) := gen_tag f t c0 in
      if px_specs c1 then pass f r c1           
      else
        match res1 with
        | Ok (ev, b) =>
            let '(pr, c2) := pass f r c1 in
            ({| pr_out := (match ev with [] => [] | _ => [(i, ev)] end) ++ pr_out pr; pr_bb := bb_opt_union b (pr_bb pr);
                pr_rem := pr_rem pr; pr_fatal := pr_fatal pr |}, c2)
        | Err k =>
            if is_fatal k then ({| pr_out := []; pr_bb := None; pr_rem := pending; pr_fatal := Some k |}, c1)
            else let '(pr, c2) := pass f r c1 in
                 ({| pr_out := pr_out pr; pr_bb := pr_bb pr; pr_rem := (i, t) :: pr_rem pr; pr_fatal := pr_fatal pr |}, c2)
        | Panic s => ({| pr_out := []; pr_bb := None; pr_rem := pending; pr_fatal := Some EInternalLogic |}, c1)
        | OutOfFuel => ({| pr_out := []; pr_bb := None; pr_rem := pending; pr_fatal := Some EOther |}, c1)
        end
  end).
Proof. reflexivity. Qed.

Lemma gen_tag_S f (t : tag) (c : pctx) :
  gen_tag (S f) t c =
  (match t with
  | TgEl e kids tail =>
      dor r, c1 <- gen f e kids c;
      let '(ev, b) := r in
      (Ok (match tail, ev with Some tl, _ :: _ => (ev ++ [OText tl])%list | _, _ => ev end, b), c1)
  | TgComment s tail => (Ok (OComment s :: match tail with Some tl => [OText tl] | None => [] end, None), c)
  | TgText s => (Ok ([OText s], None), c)
  | TgCData s => (Ok ([OCData s], None), c)
  end).
Proof. reflexivity. Qed.

Lemma gen_group_S f (e : el) (kids : option (list node)) (c : pctx) :
  gen_group (S f) e kids c =
  (dor ne, c1 <- eval_attributes e c;
  let c2 := push_element c1 e in
  let '(r, c3) :=
    match kids with
    | None => (Ok ([oel false ne], None), c2)
    | Some ks =>
        match process_events f ks c2 with
        | (Ok (ev, b), c') => (Ok (oel true ne :: ev ++ [OEnd (ename N ne)], b), c')
        | (Err k, c') => (Err k, c') | (Panic s, c') => (Panic s, c') | (OutOfFuel, c') => (OutOfFuel, c')
        end
    end in
  let c4 := pop_element c3 in
  match r with
  | Ok (ev, cb) =>
      let ge := with_cbb N e cb in
      let c5 := set_prev (update_element c4 ge) ge in
      if String.eqb (ename N e) "symbol" then (Ok (ev, None), c5)
      else match el_bbox_of ge with
           | Ok b => (Ok (ev, b), c5)
           | Err k => (Err k, c5) | Panic s => (Panic s, c5) | OutOfFuel => (OutOfFuel, c5) end
  | Err k => (Err k, c4) | Panic s => (Panic s, c4) | OutOfFuel => (OutOfFuel, c4)
  end).
Proof. reflexivity. Qed.

Lemma gen_container_S f (e : el) (ks : list node) (c : pctx) :
  gen_container (S f) e ks c =
  (let inner_text := inner_text_go' ks None in
  match is_graphics e, inner_text with
  | true, Some t =>
      
      gen f (eset N e "text" t) None c
  | _, _ =>
      if (String.eqb (ename N e) "svg" && ehas N e "xmlns")%bool then (Ok (raw_events (NEl e ks), None), c)
      else
        dor ne, c1 <- eval_attributes e c;
        let ne := if c_metadata (px_cfg c1) then eset N ne "data-src-line" (nat_str (Z.of_nat (eline N e))) else ne in
        dor rb, c2 <- (match inner_text with
                       | Some _ => (Ok (flat_map raw_events ks, None), c1)
                       | None => process_events f ks c1 end);
        let '(ev, b) := rb in
        let events := (oel true ne :: ev ++ [OEnd (ename N e)])%list in
        let '(b, c3) :=
          if (String.eqb (ename N e) "defs" || String.eqb (ename N e) "symbol")%bool then (None, c2)
          else match b with Some _ => (b, update_element c2 (with_cbb N ne b)) | None => (b, c2) end in
        let c4 := match b with Some _ => set_prev c3 (with_cbb N ne b) | None => c3 end in
        
        (Ok (events, if mem_str (ename N e) container_unrendered then None else b), c4)
  end).
Proof. reflexivity. Qed.

Lemma gen_specs_S f (e : el) (kids : option (list node)) (c : pctx) :
  gen_specs (S f) e kids c =
  (if px_specs c then (Err EDocument, c) else
  match kids with
  | None => ok0 c
  | Some ks =>
      match process_events f ks (with_specs c true) with
      | (Ok _, c1) => ok0 (with_specs c1 false)
      | (Err k, c1) => (Err k, c1) | (Panic s, c1) => (Panic s, c1) | (OutOfFuel, c1) => (OutOfFuel, c1)
      end
  end).
Proof. reflexivity. Qed.

Lemma gen_if_S f (e : el) (kids : option (list node)) (c : pctx) :
  gen_if (S f) e kids c =
  (match eget N e "test" with
  | None => (Err EMissingAttribute, c)
  | Some test =>
      match kids with
      | None => ok0 c
      | Some ks => dor b, c1 <- eval_cond c test; if b then process_events f ks c1 else ok0 c1
      end
  end).
Proof. reflexivity. Qed.

Lemma gen_loop_S f (e : el) (kids : option (list node)) (c : pctx) :
  gen_loop (S f) e kids c =
  (let kind := if ehas N e "count" then Some 0%nat else if ehas N e "while" then Some 1%nat
              else if ehas N e "until" then Some 2%nat else None in
  match kind, kids with
  | Some k, Some ks =>
      dor count, c1 <- (match eget N e "count" with
                        | Some cs => dor s, c' <- eval_attr c cs;
                                     (match parse_u32 s with Some n => (Ok n, c') | None => (Err EParse, c') end)
                        | None => (Ok 0%Z, c) end);
      dor spec, c2 <- (match eget N e "loop-var" with
                       | Some lv =>
                           dor name, ca <- eval_attr c1 lv;
                           dor st, cb <- eval_attr ca (match eget N e "start" with Some s => s | None => "0" end);
                           dor sp, cc <- eval_attr cb (match eget N e "step" with Some s => s | None => "1" end);
                           (match parse_f64 st, parse_f64 sp with
                            | Some a, Some b => (Ok (name, a, b), cc)
                            | _, _ => (Err EParse, cc) end)
                       | None => (Ok ("", f64_zero, f64_one), c1) end);
      let '(name, start, step) := spec in
      loop_iter f k (match eget N e (match k with O => "count" | 1%nat => "while" | _ => "until" end) with Some s => s | None => "" end)
                count name step ks 0%Z start [] None c2
  | _, _ => ok0 c
  end).
Proof. reflexivity. Qed.

Lemma loop_iter_S f (k : nat) (expr : string) (count : Z) (name : string) (step : f64) (ks : list node) (iteration : Z) (value : f64) (acc : evs) (bb : option bbox) (c : pctx) :
  loop_iter (S f) k expr count name step ks iteration value acc bb c =
  (dor go_on, c1 <- (match k with
                    | O => (Ok (iteration <? count)%Z, c)
                    | 1%nat => eval_cond c expr
                    | _ => (Ok true, c) end);
  if negb go_on then (Ok (acc, bb), c1) else
  let c2 := if nonempty name then with_scopes c1 (set_var (px_scopes c1) name (f64_to_string value)) (px_estack c1) else c1 in
  dor r, c3 <- process_events f ks c2;
  let '(ev, b) := r in
  let acc' := (acc ++ ev)%list in let bb' := bb_opt_union bb b in
  let it' := (iteration + 1)%Z in
  if (c_loop_limit (px_cfg c3) <? it')%Z then (Err ELoopLimit, c3) else
  dor stop, c4 <- (match k with 2%nat => eval_cond c3 expr | _ => (Ok false, c3) end);
  if stop then (Ok (acc', bb'), c4)
  else loop_iter f k expr count name step ks it' (f64_add value step) acc' bb' c4).
Proof. reflexivity. Qed.

Lemma gen_for_S f (e : el) (kids : option (list node)) (c : pctx) :
  gen_for (S f) e kids c =
  (match eget N e "var", eget N e "data", kids with
  | Some var, Some data, Some ks =>
      dor items, c1 <- eval_lst c data;
      for_iter f var (eget N e "idx-var") ks items 0%Z [] None c1
  | _, _, _ => (Err EInvalidData, c)
  end).
Proof. reflexivity. Qed.

Lemma for_iter_S f (var : string) (idxv : option string) (ks : list node) (items : list string) (idx : Z) (acc : evs) (bb : option bbox) (c : pctx) :
  for_iter (S f) var idxv ks items idx acc bb c =
  (match items with
  | [] => (Ok (acc, bb), c)
  | it :: rest =>
      let ss := set_var (px_scopes c) var it in
      let ss := match idxv with Some iv => set_var ss iv (int_str idx) | None => ss end in
      dor r, c1 <- process_events f ks (with_scopes c ss (px_estack c));
      let '(ev, b) := r in
      let idx' := (idx + 1)%Z in
      if (c_loop_limit (px_cfg c1) <? idx')%Z then (Err ELoopLimit, c1)
      else for_iter f var idxv ks rest idx' (acc ++ ev)%list (bb_opt_union bb b) c1
  end).
Proof. reflexivity. Qed.

Lemma gen_reuse_S f (e : el) (c : pctx) :
  gen_reuse (S f) e c =
  (dor re, c1 <- eval_attributes e c;
  let c2 := push_element c1 re in
  let '(r, c3) :=
    match eget N re "href" with
    | None => (Err EMissingAttribute, c2)
    | Some h =>
        match parse_elref h with
        | None => (Err EParse, c2)
        | Some rf =>
            match (match rf with RefId id => assoc id (l_orig (px_l c2)) | RefPrev => l_prev (px_l c2) end) with
            | None => (Err EReference, c2)
            | Some target =>
                match instantiate c2 re target with
                | (Ok inst, l) =>
                    let c' := with_l c2 l in
                    if eempty N inst then gen f inst None c'
                    else match kidtab (eidx N target) with
                         | Some ks => process_events f [NEl inst ks] c'
                         | None => gen f inst None c' end
                | (Err k, l) => (Err k, with_l c2 l) | (Panic s, l) => (Panic s, with_l c2 l) | (OutOfFuel, l) => (OutOfFuel, with_l c2 l)
                end
            end
        end
    end in
  (r, pop_element c3)).
Proof. reflexivity. Qed.

Definition scopes_rel (s s' : list scope) : Prop :=
  match s with
  | [] => s' = [] \/ exists g, s' = [g]
  | _ :: rest => exists top', s' = top' :: rest
  end.
Definition inv (c c' : pctx) : Prop :=
  px_estack c' = px_estack c /\ scopes_rel (px_scopes c) (px_scopes c') /\
  (px_depth N ES c' - px_over N ES c' = px_depth N ES c - px_over N ES c)%Z /\ (px_over N ES c <= px_over N ES c')%Z /\
  px_cfg c' = px_cfg c.

Lemma scopes_rel_refl s : scopes_rel s s.
Proof. destruct s; cbn; [now left | eauto]. Qed.
Lemma scopes_rel_trans a b0 c : scopes_rel a b0 -> scopes_rel b0 c -> scopes_rel a c.
Proof.
  destruct a as [|x a]; cbn.
  - intros [->|[g ->]] H; cbn in H; [exact H | right; exact H].
  - intros [t ->] [t' ->]. eauto.
Qed.
Lemma inv_refl c : inv c c.
Proof. unfold inv. split; [reflexivity|]. split; [apply scopes_rel_refl|]. split; [lia|]. split; [lia | reflexivity]. Qed.
Lemma inv_trans a b0 c : inv a b0 -> inv b0 c -> inv a c.
Proof.
  intros (H1 & H2 & H3 & H4 & H5) (G1 & G2 & G3 & G4 & G5).
  split; [congruence|]. split; [eapply scopes_rel_trans; eauto|]. split; [lia|]. split; [lia | congruence].
Qed.
Lemma inv_l_only c c' : px_estack c' = px_estack c -> px_scopes c' = px_scopes c ->
  px_depth N ES c' = px_depth N ES c -> px_over N ES c' = px_over N ES c -> px_cfg c' = px_cfg c -> inv c c'.
Proof.
  intros H1 H2 H3 H4 H5. unfold inv. rewrite H1, H2, H3, H4, H5.
  split; [reflexivity|]. split; [apply scopes_rel_refl|]. split; [lia|]. split; [lia | reflexivity].
Qed.
Lemma inv_with_l c l : inv c (with_l c l).
Proof. apply inv_l_only; reflexivity. Qed.
Lemma inv_update_element c e : inv c (update_element c e).
Proof. unfold Pipeline.update_element. destruct (eget N e "id"); [|apply inv_refl]. apply inv_l_only; reflexivity. Qed.
Lemma inv_set_prev c e : inv c (set_prev c e).
Proof. apply inv_l_only; reflexivity. Qed.
Lemma inv_set_var c k v : inv c (with_scopes c (set_var (px_scopes c) k v) (px_estack c)).
Proof.
  unfold inv. cbn. split; [reflexivity|]. split; [unfold set_var; destruct (px_scopes c); cbn; eauto|]. split; [lia|]. split; [lia | reflexivity].
Qed.

Definition pres {A} (m : pctx -> R A) : Prop := forall c r c', m c = (r, c') -> inv c c'.
Lemma eval_attr_inv v : pres (fun c => eval_attr c v).
Proof.
  intros c r c' H. unfold Pipeline.eval_attr in H.
  destruct (eva _ _ _ _) as [[s es]| | |]; injection H as <- <-; try apply inv_refl. apply inv_l_only; reflexivity.
Qed.
Lemma eval_cond_inv v : pres (fun c => eval_cond c v).
Proof.
  intros c r c' H. unfold Pipeline.eval_cond in H.
  destruct (evc _ _ _ _) as [[s es]| | |]; injection H as <- <-; try apply inv_refl. apply inv_l_only; reflexivity.
Qed.
Lemma eval_lst_inv v : pres (fun c => eval_lst c v).
Proof.
  intros c r c' H. unfold Pipeline.eval_lst in H.
  destruct (evl _ _ _ _) as [[s es]| | |]; injection H as <- <-; try apply inv_refl. apply inv_l_only; reflexivity.
Qed.
Lemma pres_rbind {A B} (m : pctx -> R A) (f : A -> pctx -> R B) :
  pres m -> (forall a, pres (f a)) -> pres (fun c => rbind (m c) f).
Proof.
  intros Hm Hf c r c' H. unfold rbind in H. destruct (m c) as [[a| | |] c1] eqn:E.
  - eapply inv_trans; [eapply Hm; exact E | eapply Hf; exact H].
  - injection H as <- <-. eapply Hm; exact E.
  - injection H as <- <-. eapply Hm; exact E.
  - injection H as <- <-. eapply Hm; exact E.
Qed.
Lemma pres_ret {A} (a : res A) : pres (fun c => (a, c)).
Proof. intros c r c' H. injection H as <- <-. apply inv_refl. Qed.

Lemma eval_attr_list_inv : forall l e, pres (eval_attr_list N ES eva l e).
Proof.
  induction l as [|[k v] l IH]; intros e; cbn [eval_attr_list]; [apply pres_ret|].
  destruct (String.eqb k "__"); [apply IH|].
  apply (pres_rbind (fun c => eval_attr c v)); [apply eval_attr_inv | intros a; apply IH].
Qed.
Lemma eval_class_list_inv : forall l e, pres (eval_class_list N ES eva l e).
Proof.
  induction l as [|x l IH]; intros e; cbn [eval_class_list]; [apply pres_ret|].
  apply (pres_rbind (fun c => eval_attr c x)); [apply eval_attr_inv | intros a; apply IH].
Qed.
Lemma eval_attributes_inv e : pres (eval_attributes e).
Proof.
  unfold Pipeline.eval_attributes.
  apply (pres_rbind (eval_attr_list N ES eva (eattrs N e) e)); [apply eval_attr_list_inv | intros a; apply eval_class_list_inv].
Qed.

Lemma fold_set_var_rel : forall l ss, scopes_rel ss (fold_left (fun s kv => set_var s (fst kv) (snd kv)) l ss).
Proof.
  induction l as [|[k v] l IH]; intros ss; cbn [fold_left]; [apply scopes_rel_refl|].
  eapply scopes_rel_trans; [|apply IH]. unfold set_var. destruct ss; cbn; eauto.
Qed.
Lemma gen_var_inv : forall l newv, pres (gen_var l newv).
Proof.
  induction l as [|[k v] l IH]; intros newv; cbn [Pipeline.gen_var].
  - intros c r c' H. injection H as <- <-. unfold inv. cbn. split; [reflexivity|]. split; [apply fold_set_var_rel|]. split; [lia|]. split; [lia | reflexivity].
  - destruct (String.eqb k "_" || String.eqb k "__")%bool; [apply IH|].
    apply (pres_rbind (fun c => eval_attr c v)); [apply eval_attr_inv|]. intros a c r c' H.
    destruct (_ <? _)%Z; [injection H as <- <-; apply inv_refl | eapply IH; exact H].
Qed.

(* ---- the same, for contexts with a non-negative depth counter (needed for dec_depth to succeed) ---- *)
Definition nn (c : pctx) : Prop := (0 <= px_depth N ES c)%Z.
Lemma inv_nn c c' : inv c c' -> nn c -> nn c'.
Proof. intros (_ & _ & H3 & H4) H. unfold nn in *. lia. Qed.
Definition presd {A} (m : pctx -> R A) : Prop := forall c r c', nn c -> m c = (r, c') -> inv c c'.
Lemma pres_presd {A} (m : pctx -> R A) : pres m -> presd m.
Proof. intros H c r c' _ E. eapply H; exact E. Qed.
Lemma presd_rbind {A B} (m : pctx -> R A) (f : A -> pctx -> R B) :
  presd m -> (forall a, presd (f a)) -> presd (fun c => rbind (m c) f).
Proof.
  intros Hm Hf c r c' Hn H. unfold rbind in H. destruct (m c) as [[a| | |] c1] eqn:E.
  - pose proof (Hm _ _ _ Hn E) as I1. eapply inv_trans; [exact I1 | eapply Hf; [eapply inv_nn; eauto | exact H]].
  - injection H as <- <-. eapply Hm; eauto.
  - injection H as <- <-. eapply Hm; eauto.
  - injection H as <- <-. eapply Hm; eauto.
Qed.
Lemma presd_ret {A} (a : res A) : presd (fun c => (a, c)).
Proof. apply pres_presd, pres_ret. Qed.

(* push / run / pop restores the stacks exactly *)
Lemma inv_push_pop c e c3 : inv (push_element c e) c3 -> inv c (pop_element c3).
Proof.
  intros (H1 & H2 & H3 & H4 & H5). unfold inv, pop_element, push_element in *. cbn in *.
  destruct H2 as [top' H2]. rewrite H1, H2. cbn. split; [reflexivity|]. split; [apply scopes_rel_refl|]. split; [lia|]. split; [lia | exact H5].
Qed.
Lemma nn_push c e : nn c -> nn (push_element c e).
Proof. exact (fun H => H). Qed.

Definition PassInv (fuel : nat) : Prop := forall pending c pr c', nn c -> pass fuel pending c = (pr, c') -> inv c c'.
Definition AllInv (fuel : nat) : Prop :=
  (forall e kids, presd (gen fuel e kids)) /\ (forall e kids, presd (dispatch fuel e kids)) /\
  (forall ns, presd (process_events fuel ns)) /\ (forall p pend out bb, presd (retry fuel p pend out bb)) /\
  PassInv fuel /\ (forall t, presd (gen_tag fuel t)) /\ (forall e kids, presd (gen_group fuel e kids)) /\
  (forall e ks, presd (gen_container fuel e ks)) /\ (forall e kids, presd (gen_specs fuel e kids)) /\
  (forall e kids, presd (gen_if fuel e kids)) /\ (forall e kids, presd (gen_loop fuel e kids)) /\
  (forall k ex cnt nm st ks it v acc bb, presd (loop_iter fuel k ex cnt nm st ks it v acc bb)) /\
  (forall e kids, presd (gen_for fuel e kids)) /\
  (forall var idxv ks items idx acc bb, presd (for_iter fuel var idxv ks items idx acc bb)) /\
  (forall e, presd (gen_reuse fuel e)).

Lemma inc_depth_spec c r c1 : inc_depth c = (r, c1) ->
  px_estack c1 = px_estack c /\ px_scopes c1 = px_scopes c /\
  match r with
  | Ok _ => px_depth N ES c1 = (px_depth N ES c + 1)%Z /\ px_over N ES c1 = px_over N ES c
  | _ => inv c c1 end.
Proof.
  unfold inc_depth. destruct (_ <? _)%Z; intros H; injection H as <- <-.
  - split; [reflexivity|]. split; [reflexivity|]. unfold inv. cbn [px_estack px_scopes px_depth px_over with_over with_depth].
    split; [reflexivity|]. split; [apply scopes_rel_refl|]. split; [lia|]. split; [lia | reflexivity].
  - split; [reflexivity|]. split; [reflexivity|]. split; reflexivity.
Qed.

Lemma all_inv : forall fuel, AllInv fuel.
Proof.
  induction fuel as [|f IH].
  - unfold AllInv, PassInv, presd. split; [|split; [|split; [|split; [|split; [|split; [|split; [|split; [|split; [|split; [|split; [|split; [|split; [|split]]]]]]]]]]]]]; intros;
      match goal with H : _ = (_, _) |- _ => cbn in H; injection H as <- <- end; apply inv_refl.
  - destruct IH as (Igen & Idisp & Ipe & Iretry & Ipass & Itag & Igroup & Icont & Ispecs & Iif & Iloop & Iliter & Ifor & Ifiter & Ireuse).
    unfold AllInv. split; [|split; [|split; [|split; [|split; [|split; [|split; [|split; [|split; [|split; [|split; [|split; [|split; [|split]]]]]]]]]]]]].
    + (* gen *)
      intros e kids c r c' Hn H. rewrite gen_S in H. cbv zeta in H.
      destruct (inc_depth c) as [ri c1] eqn:Ei. pose proof (inc_depth_spec _ _ _ Ei) as (S1 & S2 & S3).
      destruct ri as [u| | |]; try (injection H as <- <-; exact S3).
      destruct S3 as (D1 & O1).
      destruct (dispatch f e kids c1) as [rd c2] eqn:Ed.
      assert (Hn1 : nn c1) by (unfold nn in *; lia).
      pose proof (Idisp _ _ _ _ _ Hn1 Ed) as (A1 & A2 & A3 & A4 & A5).
      assert (Hpos : (0 <? px_depth N ES c2)%Z = true) by (apply Z.ltb_lt; unfold nn in *; lia).
      unfold Pipeline.dec_depth in H. rewrite Hpos in H.
      set (c3 := with_depth N ES c2 (px_depth N ES c2 - 1)%Z) in *.
      assert (I3 : inv c c3).
      { unfold inv, c3. cbn. rewrite A1, S1. rewrite S2 in A2.
        assert (Hcfg : px_cfg c1 = px_cfg c).
        { clear - Ei. unfold Pipeline.inc_depth in Ei. destruct (_ <? _)%Z in Ei; [discriminate|]. injection Ei as _ <-. reflexivity. }
        split; [reflexivity|]. split; [exact A2|]. split; [lia|]. split; [lia | congruence]. }
      destruct rd as [[ev b]| | |]; try (injection H as <- <-; exact I3).
      destruct (clip c3 e b) as [[b'| | |] l]; injection H as <- <-;
        (eapply inv_trans; [exact I3 | apply inv_with_l]).
    + (* dispatch *)
      intros e kids c r c' Hn H. rewrite dispatch_S in H. cbv zeta in H.
      repeat match type of H with
             | (if ?b then _ else _) = _ => destruct b
             end;
        try (eapply Iloop; eassumption); try (eapply Ireuse; eassumption); try (eapply Ispecs; eassumption);
        try (eapply Iif; eassumption); try (eapply Ifor; eassumption); try (eapply Igroup; eassumption);
        try (unfold Pipeline.gen_config, Pipeline.ok0 in H; injection H as <- <-; apply inv_refl);
        try (eapply (pres_presd _ (gen_var_inv _ _)); eassumption).
      destruct kids as [ks|]; [eapply Icont; eassumption|].
      destruct (leaf c e) as [rl l]. injection H as <- <-. apply inv_with_l.
    + (* process_events *)
      intros ns c r c' Hn H. rewrite process_events_S in H. cbv zeta in H.
      destruct (first_real_svg ns).
      * injection H as <- <-. destruct (px_estack c); [apply inv_l_only; reflexivity | apply inv_refl].
      * eapply Iretry; eassumption.
    + (* retry *)
      intros p pend out bb c r c' Hn H. rewrite retry_S in H. cbv zeta in H.
      destruct pend as [|x pend']; [injection H as <- <-; apply inv_refl|].
      destruct (pass f (x :: pend') c) as [pr c1] eqn:Ep. pose proof (Ipass _ _ _ _ Hn Ep) as I1.
      destruct (pr_fatal pr); [injection H as <- <-; exact I1|].
      destruct (Nat.eqb _ _); [injection H as <- <-; exact I1|].
      destruct p as [|p']; [injection H as <- <-; exact I1|].
      eapply inv_trans; [exact I1 | eapply Iretry; [eapply inv_nn; eauto | exact H]].
    + (* pass *)
      intros pend c pr c' Hn H. rewrite pass_S in H. cbv zeta in H.
      destruct pend as [|[i t] r0]; [injection H as <- <-; apply inv_refl|].
      set (c0 := match t with TgEl e _ _ => update_element c e | _ => c end) in *.
      assert (I0 : inv c c0) by (unfold c0; destruct t; try apply inv_refl; apply inv_update_element).
      destruct (gen_tag f t c0) as [res1 c1] eqn:Et.
      pose proof (Itag _ _ _ _ (inv_nn _ _ I0 Hn) Et) as I1.
      assert (I01 : inv c c1) by (eapply inv_trans; eauto).
      assert (Hn1 : nn c1) by (eapply inv_nn; eauto).
      destruct (px_specs c1).
      * eapply inv_trans; [exact I01 | eapply Ipass; [exact Hn1 | eassumption]].
      * destruct res1 as [[ev b]|k|s|].
        -- destruct (pass f r0 c1) as [pr2 c2] eqn:Ep. injection H as <- <-.
           eapply inv_trans; [exact I01 | eapply Ipass; [exact Hn1 | eassumption]].
        -- destruct (is_fatal k); [injection H as <- <-; exact I01|].
           destruct (pass f r0 c1) as [pr2 c2] eqn:Ep. injection H as <- <-.
           eapply inv_trans; [exact I01 | eapply Ipass; [exact Hn1 | eassumption]].
        -- injection H as <- <-; exact I01.
        -- injection H as <- <-; exact I01.
    + (* gen_tag *)
      intros t c r c' Hn H. rewrite gen_tag_S in H. cbv zeta in H. destruct t as [e kids tail|s tail|s|s]; try (injection H as <- <-; apply inv_refl).
      unfold rbind in H. destruct (gen f e kids c) as [[[ev b]| | |] c1] eqn:Eg; injection H as <- <-; eapply Igen; eauto.
    + (* gen_group *)
      intros e kids c r c' Hn H. rewrite gen_group_S in H. cbv zeta in H. unfold rbind in H.
      destruct (eval_attributes e c) as [[ne| | |] c1] eqn:Ea; try (injection H as <- <-; eapply eval_attributes_inv; eauto).
      pose proof (eval_attributes_inv _ _ _ _ Ea) as I1.
      assert (Hn1 : nn c1) by (eapply inv_nn; eauto).
      set (c2 := push_element c1 e) in *.
      destruct (match kids with Some _ => _ | None => _ end) as [r3 c3] eqn:E3.
      assert (I3 : inv c2 c3).
      { destruct kids as [ks|]; [|injection E3 as <- <-; apply inv_refl].
        destruct (process_events f ks c2) as [[[ev b]| | |] c4] eqn:Ep; injection E3 as <- <-; eapply Ipe; eauto. }
      pose proof (inv_push_pop _ _ _ I3) as I4.
      assert (I14 : inv c (pop_element c3)) by (eapply inv_trans; eauto).
      destruct r3 as [[ev cb]| | |]; try (injection H as <- <-; exact I14).
      assert (I5 : inv c (set_prev (update_element (pop_element c3) (with_cbb N e cb)) (with_cbb N e cb))).
      { eapply inv_trans; [exact I14|]. eapply inv_trans; [apply inv_update_element | apply inv_set_prev]. }
      destruct (String.eqb (ename N e) "symbol"); [injection H as <- <-; exact I5|].
      destruct (el_bbox_of _); injection H as <- <-; exact I5.
    + (* gen_container *)
      intros e ks c r c' Hn H. rewrite gen_container_S in H. cbv zeta in H.
      assert (Hmain : presd (fun c =>
        if (String.eqb (ename N e) "svg" && ehas N e "xmlns")%bool then (Ok (raw_events (NEl e ks), None), c)
         else rbind (eval_attributes e c) (fun ne c1 =>
              let ne0 := if c_metadata (px_cfg c1) then eset N ne "data-src-line" (nat_str (Z.of_nat (eline N e))) else ne in
              rbind (match inner_text_go' ks None with
                          | Some _ => (Ok (flat_map (raw_events) ks, None), c1)
                          | None => process_events f ks c1 end)
                (fun rb c2 => let '(ev, b) := rb in
                   let events := (oel true ne0 :: ev ++ [OEnd (ename N e)])%list in
                   let '(b0, c3) := if (String.eqb (ename N e) "defs" || String.eqb (ename N e) "symbol")%bool then (None, c2)
                                    else match b with Some _ => (b, update_element c2 (with_cbb N ne0 b)) | None => (b, c2) end in
                   let c4 := match b0 with Some _ => set_prev c3 (with_cbb N ne0 b0) | None => c3 end in
                   (Ok (events, if mem_str (ename N e) container_unrendered then None else b0), c4))))).
      { destruct (_ && _)%bool; [apply presd_ret|].
        apply (presd_rbind (eval_attributes e)); [apply pres_presd, eval_attributes_inv|].
        intros ne c1 r1 c1' Hn1.
        apply (presd_rbind (fun c1 => match inner_text_go' ks None with
                          | Some _ => (Ok (flat_map (raw_events) ks, None), c1)
                          | None => process_events f ks c1 end)); [| | exact Hn1].
        - intros c2 r2 c2' Hn2 E2. destruct (inner_text_go' ks None); [injection E2 as <- <-; apply inv_refl | eapply Ipe; eauto].
        - intros [ev b] c2 r2 c2' Hn2 E2.
          destruct (_ || _)%bool.
          + injection E2 as <- <-. apply inv_refl.
          + destruct b; injection E2 as <- <-; [|apply inv_refl].
            eapply inv_trans; [apply inv_update_element | apply inv_set_prev]. }
      destruct (is_graphics e); [|eapply Hmain; [exact Hn | exact H]].
      destruct (inner_text_go' ks None); [eapply Igen; eauto | eapply Hmain; [exact Hn | exact H]].
    + (* gen_specs *)
      intros e kids c r c' Hn H. rewrite gen_specs_S in H. cbv zeta in H.
      destruct (px_specs c); [injection H as <- <-; apply inv_refl|].
      destruct kids as [ks|]; [|injection H as <- <-; apply inv_refl].
      destruct (process_events f ks (with_specs c true)) as [[x| | |] c1] eqn:Ep;
        assert (I1 : inv c c1) by (eapply inv_trans; [apply (inv_l_only c (with_specs c true)); reflexivity | eapply Ipe; [exact Hn | exact Ep]]);
        injection H as <- <-; exact I1.
    + (* gen_if *)
      intros e kids c r c' Hn H. rewrite gen_if_S in H. cbv zeta in H.
      destruct (eget N e "test"); [|injection H as <- <-; apply inv_refl].
      destruct kids as [ks|]; [|injection H as <- <-; apply inv_refl].
      refine (presd_rbind (fun c => eval_cond c s) _ _ _ _ _ _ Hn H); [apply pres_presd, eval_cond_inv|].
      intros [|] c1 r1 c1' Hn1 E; [eapply Ipe; eauto | injection E as <- <-; apply inv_refl].
    + (* gen_loop *)
      intros e kids c r c' Hn H. rewrite gen_loop_S in H. cbv zeta in H.
      match type of H with (match ?kk with Some _ => _ | None => _ end) = _ => destruct kk as [k|] end;
        [|injection H as <- <-; apply inv_refl].
      destruct kids as [ks|]; [|injection H as <- <-; apply inv_refl].
      refine (presd_rbind (fun c => match eget N e "count" with
                        | Some cs => rbind (eval_attr c cs) (fun s c' => match parse_u32 s with Some n => (Ok n, c') | None => (Err EParse, c') end)
                        | None => (Ok 0%Z, c) end) _ _ _ _ _ _ Hn H).
      * destruct (eget N e "count") as [cs|]; [|apply presd_ret].
        apply (presd_rbind (fun c => eval_attr c cs)); [apply pres_presd, eval_attr_inv|].
        intros a c1 r1 c1' Hn1 E. destruct (parse_u32 a); injection E as <- <-; apply inv_refl.
      * intros count c1 r1 c1' Hn1 H1.
        refine (presd_rbind (fun c1 => match eget N e "loop-var" with
             | Some lv => rbind (eval_attr c1 lv) (fun name ca => rbind (eval_attr ca match eget N e "start" with Some s => s | None => "0" end)
                 (fun st cb => rbind (eval_attr cb match eget N e "step" with Some s => s | None => "1" end)
                    (fun sp cc => match parse_f64 st, parse_f64 sp with Some a, Some b => (Ok (name, a, b), cc) | _, _ => (Err EParse, cc) end)))
             | None => (Ok ("", f64_zero, f64_one), c1) end) _ _ _ _ _ _ Hn1 H1).
        -- destruct (eget N e "loop-var") as [lv|]; [|apply presd_ret].
           apply (presd_rbind (fun c => eval_attr c lv)); [apply pres_presd, eval_attr_inv|]. intros name.
           apply (presd_rbind (fun c => eval_attr c _)); [apply pres_presd, eval_attr_inv|]. intros st.
           apply (presd_rbind (fun c => eval_attr c _)); [apply pres_presd, eval_attr_inv|]. intros sp c4 r4 c4' Hn4 E.
           destruct (parse_f64 st), (parse_f64 sp); injection E as <- <-; apply inv_refl.
        -- intros [[name start] step]. apply Iliter.
    + (* loop_iter *)
      intros k ex cnt nm st ks it v acc bb c r c' Hn H. rewrite loop_iter_S in H. cbv zeta in H.
      refine (presd_rbind (fun c => match k with
                    | O => (Ok (it <? cnt)%Z, c)
                    | 1%nat => eval_cond c ex
                    | _ => (Ok true, c) end) _ _ _ _ _ _ Hn H).
      * intros c0 r0 c0' Hn0 E. destruct k as [|[|k]]; try (injection E as <- <-; apply inv_refl). eapply eval_cond_inv; eauto.
      * intros go_on c1 r1 c1' Hn1 E. destruct go_on; cbn [negb] in E; [|injection E as <- <-; apply inv_refl].
        set (c2 := if nonempty nm then with_scopes c1 (set_var (px_scopes c1) nm (f64_to_string v)) (px_estack c1) else c1) in *.
        assert (I2 : inv c1 c2) by (unfold c2; destruct (nonempty nm); [apply inv_set_var | apply inv_refl]).
        eapply inv_trans; [exact I2|].
        refine (presd_rbind (process_events f ks) _ _ _ _ _ _ (inv_nn _ _ I2 Hn1) E); [apply Ipe|].
        intros [ev b] c3 r3 c3' Hn3 E3.
        match type of E3 with (if ?bb then _ else _) = _ => destruct bb end; [injection E3 as <- <-; apply inv_refl|].
        refine (presd_rbind (fun c3 => match k with 2%nat => eval_cond c3 ex | _ => (Ok false, c3) end) _ _ _ _ _ _ Hn3 E3).
        -- intros c4 r4 c4' Hn4 E4. destruct k as [|[|[|k]]]; try (injection E4 as <- <-; apply inv_refl); eapply eval_cond_inv; eauto.
        -- intros stop c4 r4 c4' Hn4 E4. destruct stop; [injection E4 as <- <-; apply inv_refl | eapply Iliter; eauto].
    + (* gen_for *)
      intros e kids c r c' Hn H. rewrite gen_for_S in H. cbv zeta in H.
      destruct (eget N e "var") as [var|]; [|injection H as <- <-; apply inv_refl].
      destruct (eget N e "data") as [data|]; [|injection H as <- <-; apply inv_refl].
      destruct kids as [ks|]; [|injection H as <- <-; apply inv_refl].
      refine (presd_rbind (fun c => eval_lst c data) _ _ _ _ _ _ Hn H); [apply pres_presd, eval_lst_inv|].
      intros items. apply Ifiter.
    + (* for_iter *)
      intros var idxv ks items idx acc bb c r c' Hn H. rewrite for_iter_S in H. cbv zeta in H.
      destruct items as [|it rest]; [injection H as <- <-; apply inv_refl|].
      set (ss := match idxv with Some iv => set_var (set_var (px_scopes c) var it) iv (int_str idx) | None => set_var (px_scopes c) var it end) in *.
      set (c1 := with_scopes c ss (px_estack c)) in *.
      assert (I1 : inv c c1).
      { unfold c1, ss. destruct idxv.
        - eapply inv_trans; [apply (inv_set_var c var it)|]. apply (inv_set_var (with_scopes c (set_var (px_scopes c) var it) (px_estack c))).
        - apply inv_set_var. }
      eapply inv_trans; [exact I1|].
      refine (presd_rbind (process_events f ks) _ _ _ _ _ _ (inv_nn _ _ I1 Hn) H); [apply Ipe|].
      intros [ev b] c2 r2 c2' Hn2 E.
      match type of E with (if ?bb then _ else _) = _ => destruct bb end; [injection E as <- <-; apply inv_refl | eapply Ifiter; eauto].
    + (* gen_reuse *)
      intros e c r c' Hn H. rewrite gen_reuse_S in H. cbv zeta in H. unfold rbind in H.
      destruct (eval_attributes e c) as [[re| | |] c1] eqn:Ea; try (injection H as <- <-; eapply eval_attributes_inv; eauto).
      pose proof (eval_attributes_inv _ _ _ _ Ea) as I1. assert (Hn1 : nn c1) by (eapply inv_nn; eauto).
      set (c2 := push_element c1 re) in *.
      destruct (match eget N re "href" with Some _ => _ | None => _ end) as [r3 c3] eqn:E3.
      injection H as <- <-. eapply inv_trans; [exact I1|]. apply (inv_push_pop c1 re).
      fold c2. revert E3.
      destruct (eget N re "href") as [h|]; [|intros E; injection E as <- <-; apply inv_refl].
      destruct (parse_elref h) as [rf|]; [|intros E; injection E as <- <-; apply inv_refl].
      match goal with |- (match ?t with Some _ => _ | None => _ end) = _ -> _ => destruct t as [target|] end;
        [|intros E; injection E as <- <-; apply inv_refl].
      destruct (instantiate c2 re target) as [[inst| | |] l]; try (intros E; injection E as <- <-; apply inv_with_l).
      assert (Il : inv c2 (with_l c2 l)) by apply inv_with_l.
      assert (Hnl : nn (with_l c2 l)) by exact Hn1.
      destruct (eempty N inst).
      * intros E. eapply inv_trans; [exact Il | eapply Igen; eauto].
      * destruct (kidtab (eidx N target)); intros E; (eapply inv_trans; [exact Il|]); [eapply Ipe; eauto | eapply Igen; eauto].
Qed.

(* ---- corollaries ---- *)
Theorem gen_frame fuel e kids c r c' : nn c -> gen fuel e kids c = (r, c') -> inv c c'.
Proof. intros Hn H. destruct (all_inv fuel) as (Ig & _). eapply Ig; eauto. Qed.
Theorem process_events_frame fuel ns c r c' : nn c -> process_events fuel ns c = (r, c') -> inv c c'.
Proof. intros Hn H. destruct (all_inv fuel) as (_ & _ & Ip & _). eapply Ip; eauto. Qed.

(* evaluation of attributes touches nothing but the [lst] part *)
Definition lonly (c c' : pctx) : Prop :=
  px_scopes c' = px_scopes c /\ px_estack c' = px_estack c /\ px_depth N ES c' = px_depth N ES c /\
  px_over N ES c' = px_over N ES c /\ px_specs c' = px_specs c /\ px_cfg c' = px_cfg c.
Lemma lonly_refl c : lonly c c. Proof. repeat split. Qed.
Lemma lonly_trans a b0 c : lonly a b0 -> lonly b0 c -> lonly a c.
Proof. unfold lonly. intros (A1 & A2 & A3 & A4 & A5 & A6) (B1 & B2 & B3 & B4 & B5 & B6). repeat split; congruence. Qed.
Lemma eval_attr_lonly v c r c' : eval_attr c v = (r, c') -> lonly c c'.
Proof.
  unfold Pipeline.eval_attr. destruct (eva _ _ _ _) as [[s es]| | |]; intros H; injection H as <- <-; repeat split.
Qed.
Lemma eval_attr_list_lonly : forall l e c r c', eval_attr_list N ES eva l e c = (r, c') -> lonly c c'.
Proof.
  induction l as [|[k v] l IH]; intros e c r c' H; cbn [eval_attr_list] in H; [injection H as <- <-; apply lonly_refl|].
  destruct (String.eqb k "__"); [eapply IH; eauto|].
  unfold Pipeline.rbind in H. destruct (eval_attr c v) as [[a| | |] c1] eqn:E; pose proof (eval_attr_lonly _ _ _ _ E) as L1;
    try (injection H as <- <-; exact L1). eapply lonly_trans; [exact L1 | eapply IH; eauto].
Qed.
Lemma eval_class_list_lonly : forall l e c r c', eval_class_list N ES eva l e c = (r, c') -> lonly c c'.
Proof.
  induction l as [|x l IH]; intros e c r c' H; cbn [eval_class_list] in H; [injection H as <- <-; apply lonly_refl|].
  unfold Pipeline.rbind in H. destruct (eval_attr c x) as [[a| | |] c1] eqn:E; pose proof (eval_attr_lonly _ _ _ _ E) as L1;
    try (injection H as <- <-; exact L1). eapply lonly_trans; [exact L1 | eapply IH; eauto].
Qed.
Lemma eval_attributes_lonly e c r c' : eval_attributes e c = (r, c') -> lonly c c'.
Proof.
  unfold Pipeline.eval_attributes, Pipeline.rbind. intros H.
  destruct (eval_attr_list N ES eva (eattrs N e) e c) as [[a| | |] c1] eqn:E; pose proof (eval_attr_list_lonly _ _ _ _ _ E) as L1;
    try (injection H as <- <-; exact L1). eapply lonly_trans; [exact L1 | eapply eval_class_list_lonly; eauto].
Qed.

(* a group restores the whole scope stack exactly, whether its content succeeds or fails *)
Theorem group_scopes_exact fuel e kids c r c' : nn c -> gen_group fuel e kids c = (r, c') ->
  px_scopes c' = px_scopes c /\ px_estack c' = px_estack c.
Proof.
  intros Hn H. destruct fuel as [|f]; [cbn in H; injection H as <- <-; split; reflexivity|].
  rewrite gen_group_S in H. cbv zeta in H. unfold Pipeline.rbind in H.
  destruct (eval_attributes e c) as [[ne| | |] c1] eqn:Ea; pose proof (eval_attributes_lonly _ _ _ _ Ea) as (L1 & L2 & L3 & _);
    try (injection H as <- <-; split; assumption).
  assert (Hn1 : nn c1) by (unfold nn in *; lia).
  destruct (match kids with Some _ => _ | None => _ end) as [r3 c3] eqn:E3.
  assert (I3 : inv (push_element c1 e) c3).
  { destruct kids as [ks|]; [|injection E3 as <- <-; apply inv_refl].
    destruct (process_events f ks (push_element c1 e)) as [[[ev b]| | |] c4] eqn:Ep; injection E3 as <- <-;
      eapply process_events_frame; eauto. }
  destruct I3 as (S1 & [top' S2] & _).
  assert (P1 : px_scopes (pop_element c3) = px_scopes c) by (cbn; rewrite S2; cbn; exact L1).
  assert (P2 : px_estack (pop_element c3) = px_estack c) by (cbn; rewrite S1; cbn; exact L2).
  assert (U : forall x y, px_scopes (set_prev (update_element (pop_element c3) x) y) = px_scopes (pop_element c3) /\
                          px_estack (set_prev (update_element (pop_element c3) x) y) = px_estack (pop_element c3)).
  { intros x y. unfold Pipeline.update_element. destruct (eget N x "id"); split; reflexivity. }
  destruct r3 as [[ev cb]| | |]; try (injection H as <- <-; split; assumption).
  destruct (U (with_cbb N e cb) (with_cbb N e cb)) as (U1 & U2).
  destruct (String.eqb (ename N e) "symbol"); [injection H as <- <-; split; congruence|].
  destruct (el_bbox_of _); injection H as <- <-; split; congruence.
Qed.

(* ================= limits (C17) ================= *)
Definition limit_of (c : pctx) : Z := c_depth_limit (px_cfg c).

(* an element is rejected for depth at its own entry exactly when the counter would exceed the limit *)
Theorem gen_depth_exceeded f e kids c : (limit_of c < px_depth N ES c + 1)%Z ->
  fst (gen (S f) e kids c) = Err EDepthLimit.
Proof.
  intros H. rewrite gen_S. unfold Pipeline.inc_depth. apply Z.ltb_lt in H. unfold limit_of in H. rewrite H. reflexivity.
Qed.
Theorem gen_depth_within f e kids c : (px_depth N ES c + 1 <= limit_of c)%Z ->
  gen (S f) e kids c =
  (let c1 := with_depth N ES c (px_depth N ES c + 1)%Z in
   let '(r, c2) := dispatch f e kids c1 in
   match dec_depth c2 with
   | (Ok _, c3) => match r with
                   | Ok (ev, b) => match clip c3 e b with
                                   | (Ok b', l) => (Ok (ev, b'), with_l c3 l)
                                   | (Err k, l) => (Err k, with_l c3 l) | (Panic s, l) => (Panic s, with_l c3 l)
                                   | (OutOfFuel, l) => (OutOfFuel, with_l c3 l) end
                   | _ => (r, c3) end
   | (Err k, c3) => (Err k, c3) | (Panic s, c3) => (Panic s, c3) | (OutOfFuel, c3) => (OutOfFuel, c3) end).
Proof.
  intros H. rewrite gen_S. unfold Pipeline.inc_depth. unfold limit_of in H.
  assert (E : (c_depth_limit (px_cfg c) <? px_depth N ES c + 1)%Z = false) by (apply Z.ltb_ge; lia).
  rewrite E. reflexivity.
Qed.
(* depth is nesting, not length: without a depth failure the counter is the same for every sibling of a level *)
Theorem siblings_same_depth fuel pending c pr c' : nn c -> pass fuel pending c = (pr, c') ->
  px_over N ES c' = px_over N ES c -> px_depth N ES c' = px_depth N ES c.
Proof.
  intros Hn H Ho. destruct (all_inv fuel) as (_ & _ & _ & _ & Ip & _). destruct (Ip _ _ _ _ Hn H) as (_ & _ & Hd & _). lia.
Qed.

(* loops: rejected exactly when more than loop-limit passes are asked for *)
Definition llimit (c : pctx) : Z := c_loop_limit (px_cfg c).
Definition body_no_looplimit (ks : list node) : Prop :=
  forall f c r c', process_events f ks c = (r, c') -> r <> Err ELoopLimit.
Definition body_ok (F0 : nat) (ks : list node) : Prop :=
  forall f c, nn c -> (F0 <= f)%nat -> exists ev b c', process_events f ks c = (Ok (ev, b), c').

Theorem loop_limit_not_spurious : forall fuel ex cnt nm st ks it v acc bb c r c',
  nn c -> body_no_looplimit ks -> (cnt <= llimit c)%Z ->
  loop_iter fuel 0 ex cnt nm st ks it v acc bb c = (r, c') -> r <> Err ELoopLimit.
Proof.
  induction fuel as [|f IH]; intros ex cnt nm st ks it v acc bb c r c' Hn Hb Hc H.
  - cbn in H. injection H as <- <-. discriminate.
  - rewrite loop_iter_S in H. cbv zeta in H. unfold Pipeline.rbind in H. cbn [negb] in H.
    destruct (it <? cnt)%Z eqn:Eg; cbn [negb] in H; [|injection H as <- <-; discriminate].
    set (c2 := if nonempty nm then with_scopes c (set_var (px_scopes c) nm (f64_to_string v)) (px_estack c) else c) in *.
    assert (I2 : inv c c2) by (unfold c2; destruct (nonempty nm); [apply inv_set_var | apply inv_refl]).
    destruct (process_events f ks c2) as [[[ev b]|k|s|] c3] eqn:Ep; try (injection H as <- <-; first [discriminate | exact (Hb _ _ _ _ Ep)]).
    pose proof (process_events_frame _ _ _ _ _ (inv_nn _ _ I2 Hn) Ep) as I3.
    assert (I : inv c c3) by (eapply inv_trans; eauto).
    assert (Hl : llimit c3 = llimit c) by (unfold llimit; destruct I as (_ & _ & _ & _ & ->); reflexivity).
    assert (El : (c_loop_limit (px_cfg c3) <? it + 1)%Z = false).
    { apply Z.ltb_ge. apply Z.ltb_lt in Eg. unfold llimit in *. rewrite Hl. eapply Z.le_trans; [|exact Hc]. apply Zlt_le_succ in Eg. exact Eg. }
    rewrite El in H. eapply IH; [eapply inv_nn; eauto | exact Hb | rewrite Hl; exact Hc | exact H].
Qed.

Theorem loop_limit_enforced : forall n fuel F0 ex cnt nm st ks it v acc bb c,
  nn c -> body_ok F0 ks -> (llimit c < cnt)%Z -> (it <= llimit c)%Z -> n = Z.to_nat (llimit c - it) ->
  (F0 + n + 1 <= fuel)%nat ->
  fst (loop_iter fuel 0 ex cnt nm st ks it v acc bb c) = Err ELoopLimit.
Proof.
  induction n as [|n IH]; intros fuel F0 ex cnt nm st ks it v acc bb c Hn Hb Hc Hi Hnn Hf;
    (destruct fuel as [|f]; [lia|]); rewrite loop_iter_S; cbv zeta; unfold Pipeline.rbind; cbn [negb];
    (assert (Eg : (it <? cnt)%Z = true) by (apply Z.ltb_lt; lia)); rewrite Eg; cbn [negb];
    set (c2 := if nonempty nm then with_scopes c (set_var (px_scopes c) nm (f64_to_string v)) (px_estack c) else c);
    (assert (I2 : inv c c2) by (unfold c2; destruct (nonempty nm); [apply inv_set_var | apply inv_refl]));
    (destruct (Hb f c2 (inv_nn _ _ I2 Hn) ltac:(lia)) as (ev & b & c3 & Ep)); rewrite Ep;
    pose proof (process_events_frame _ _ _ _ _ (inv_nn _ _ I2 Hn) Ep) as I3;
    (assert (I : inv c c3) by (eapply inv_trans; eauto));
    (assert (Hl : llimit c3 = llimit c) by (unfold llimit; destruct I as (_ & _ & _ & _ & ->); reflexivity)).
  - assert (El : (c_loop_limit (px_cfg c3) <? it + 1)%Z = true) by (apply Z.ltb_lt; unfold llimit in *; lia).
    rewrite El. reflexivity.
  - assert (El : (c_loop_limit (px_cfg c3) <? it + 1)%Z = false) by (apply Z.ltb_ge; unfold llimit in *; lia).
    rewrite El. apply (IH f F0); [eapply inv_nn; eauto | exact Hb | lia | lia | lia | lia].
Qed.

(* <for>: rejected exactly when the list has more than loop-limit items *)
Theorem for_limit_not_spurious : forall fuel var idxv ks items idx acc bb c r c',
  nn c -> body_no_looplimit ks -> (idx + Z.of_nat (List.length items) <= llimit c)%Z ->
  for_iter fuel var idxv ks items idx acc bb c = (r, c') -> r <> Err ELoopLimit.
Proof.
  induction fuel as [|f IH]; intros var idxv ks items idx acc bb c r c' Hn Hb Hc H.
  - cbn in H. injection H as <- <-. discriminate.
  - rewrite for_iter_S in H. cbv zeta in H. destruct items as [|it rest]; [injection H as <- <-; discriminate|].
    set (ss := match idxv with Some iv => set_var (set_var (px_scopes c) var it) iv (int_str idx) | None => set_var (px_scopes c) var it end) in *.
    set (c1 := with_scopes c ss (px_estack c)) in *.
    assert (I1 : inv c c1).
    { unfold c1, ss. destruct idxv.
      - eapply inv_trans; [apply (inv_set_var c var it)|]. apply (inv_set_var (with_scopes c (set_var (px_scopes c) var it) (px_estack c))).
      - apply inv_set_var. }
    unfold Pipeline.rbind in H.
    destruct (process_events f ks c1) as [[[ev b]|k|s|] c2] eqn:Ep; try (injection H as <- <-; first [discriminate | exact (Hb _ _ _ _ Ep)]).
    pose proof (process_events_frame _ _ _ _ _ (inv_nn _ _ I1 Hn) Ep) as I2.
    assert (I : inv c c2) by (eapply inv_trans; eauto).
    assert (Hl : llimit c2 = llimit c) by (unfold llimit; destruct I as (_ & _ & _ & _ & ->); reflexivity).
    cbn [List.length] in Hc.
    assert (El : (c_loop_limit (px_cfg c2) <? idx + 1)%Z = false) by (apply Z.ltb_ge; unfold llimit in *; lia).
    rewrite El in H. eapply IH; [eapply inv_nn; eauto | exact Hb | | exact H]. lia.
Qed.
Theorem for_limit_enforced : forall items fuel F0 var idxv ks idx acc bb c,
  nn c -> body_ok F0 ks -> (0 <= idx)%Z -> (llimit c < idx + Z.of_nat (List.length items))%Z -> (idx <= llimit c)%Z ->
  (F0 + List.length items + 1 <= fuel)%nat ->
  fst (for_iter fuel var idxv ks items idx acc bb c) = Err ELoopLimit.
Proof.
  induction items as [|it rest IH]; intros fuel F0 var idxv ks idx acc bb c Hn Hb H0 Hc Hi Hf.
  - cbn in Hc. lia.
  - destruct fuel as [|f]; [cbn in Hf; lia|]. rewrite for_iter_S. cbv zeta.
    set (ss := match idxv with Some iv => set_var (set_var (px_scopes c) var it) iv (int_str idx) | None => set_var (px_scopes c) var it end).
    set (c1 := with_scopes c ss (px_estack c)).
    assert (I1 : inv c c1).
    { unfold c1, ss. destruct idxv.
      - eapply inv_trans; [apply (inv_set_var c var it)|]. apply (inv_set_var (with_scopes c (set_var (px_scopes c) var it) (px_estack c))).
      - apply inv_set_var. }
    unfold Pipeline.rbind. cbn [List.length] in Hf, Hc.
    destruct (Hb f c1 (inv_nn _ _ I1 Hn) ltac:(lia)) as (ev & b & c2 & Ep). rewrite Ep.
    pose proof (process_events_frame _ _ _ _ _ (inv_nn _ _ I1 Hn) Ep) as I2.
    assert (I : inv c c2) by (eapply inv_trans; eauto).
    assert (Hl : llimit c2 = llimit c) by (unfold llimit; destruct I as (_ & _ & _ & _ & ->); reflexivity).
    destruct (c_loop_limit (px_cfg c2) <? idx + 1)%Z eqn:El; [reflexivity|].
    apply Z.ltb_ge in El. apply (IH f F0); [eapply inv_nn; eauto | exact Hb | lia | unfold llimit in *; lia | unfold llimit in *; lia | lia].
Qed.

(* <var>: a value longer than var-limit is rejected, and nothing else is (as far as this element goes) *)
Theorem var_limit_enforced k v r newv c v' c1 :
  (String.eqb k "_" || String.eqb k "__")%bool = false -> eval_attr c v = (Ok v', c1) ->
  (c_var_limit (px_cfg c1) < Z.of_nat (String.length v'))%Z ->
  gen_var ((k, v) :: r) newv c = (Err EVarLimit, c1).
Proof.
  intros Hk He Hl. cbn [Pipeline.gen_var]. rewrite Hk. unfold Pipeline.rbind. rewrite He.
  apply Z.ltb_lt in Hl. rewrite Hl. reflexivity.
Qed.
Theorem var_limit_not_spurious : forall l newv c c',
  (forall c0 v r0 c1, eval_attr c0 v = (r0, c1) -> r0 <> Err EVarLimit) ->
  gen_var l newv c = (Err EVarLimit, c') ->
  exists k v c0 v' c1, In (k, v) l /\ eval_attr c0 v = (Ok v', c1) /\ (c_var_limit (px_cfg c1) < Z.of_nat (String.length v'))%Z.
Proof.
  induction l as [|[k v] l IH]; intros newv c c' He H; cbn [Pipeline.gen_var] in H; [discriminate|].
  destruct (String.eqb k "_" || String.eqb k "__")%bool.
  - destruct (IH _ _ _ He H) as (k0 & v0 & c0 & v' & c1 & Hin & E & L). exists k0, v0, c0, v', c1. split; [now right | auto].
  - unfold Pipeline.rbind in H. destruct (eval_attr c v) as [[a|k1|s|] c1] eqn:E; try discriminate.
    + destruct (c_var_limit (px_cfg c1) <? Z.of_nat (String.length a))%Z eqn:L.
      * exists k, v, c, a, c1. split; [now left|]. split; [exact E | now apply Z.ltb_lt].
      * destruct (IH _ _ _ He H) as (k0 & v0 & c0 & v' & c2 & Hin & E2 & L2). exists k0, v0, c0, v', c2. split; [now right | auto].
    + injection H as -> _. exfalso. exact (He _ _ _ _ E eq_refl).
Qed.

(* ================= retry (C10 / C01) ================= *)
(* a pass never adds pending elements: what remains is a sub-sequence of what was pending *)
Inductive subseq {A} : list A -> list A -> Prop :=
| ss_nil : subseq [] []
| ss_skip x l l' : subseq l l' -> subseq l (x :: l')
| ss_keep x l l' : subseq l l' -> subseq (x :: l) (x :: l').
Lemma subseq_refl {A} (l : list A) : subseq l l.
Proof. induction l; [constructor | apply ss_keep; assumption]. Qed.
Lemma subseq_length {A} (l l' : list A) : subseq l l' -> (List.length l <= List.length l')%nat.
Proof. induction 1; cbn; lia. Qed.
Lemma pass_remaining : forall fuel pending c pr c', pass fuel pending c = (pr, c') -> subseq (pr_rem pr) pending.
Proof.
  induction fuel as [|f IH]; intros pending c pr c' H.
  - cbn in H. injection H as <- <-. apply subseq_refl.
  - rewrite pass_S in H. cbv zeta in H. destruct pending as [|[i t] r0]; [injection H as <- <-; constructor|].
    destruct (gen_tag f t _) as [res1 c1].
    destruct (px_specs c1); [apply ss_skip; eapply IH; eauto|].
    destruct res1 as [[ev b]|k|s|].
    + destruct (pass f r0 c1) as [pr2 c2] eqn:Ep. injection H as <- <-. cbn. apply ss_skip. eapply IH; eauto.
    + destruct (is_fatal k); [injection H as <- <-; apply subseq_refl|].
      destruct (pass f r0 c1) as [pr2 c2] eqn:Ep. injection H as <- <-. cbn. apply ss_keep. eapply IH; eauto.
    + injection H as <- <-. apply subseq_refl.
    + injection H as <- <-. apply subseq_refl.
Qed.
(* the retry loop needs at most as many passes as there are pending elements: the pass budget is never the
   reason for running out (the pending set strictly shrinks or the loop stops) *)
Theorem retry_pass_budget : forall fuel passes pending out bb c r c',
  (List.length pending <= passes)%nat -> retry (S fuel) passes pending out bb c = (r, c') ->
  r = OutOfFuel -> fuel = 0%nat \/ exists p2 pend2 out2 bb2 c2, (List.length pend2 <= p2)%nat /\ (List.length pend2 < List.length pending)%nat /\
                                  retry fuel p2 pend2 out2 bb2 c2 = (r, c').
Proof.
  intros fuel passes pending out bb c r c' Hl H Hr. rewrite retry_S in H. cbv zeta in H.
  destruct pending as [|x pend']; [injection H as <- <-; discriminate|].
  destruct (pass fuel (x :: pend') c) as [pr c1] eqn:Ep. pose proof (subseq_length _ _ (pass_remaining _ _ _ _ _ Ep)) as Hs.
  destruct (pr_fatal pr); [injection H as <- <-; discriminate|].
  destruct (Nat.eqb _ _) eqn:En; [injection H as <- <-; discriminate|]. apply Nat.eqb_neq in En.
  destruct passes as [|p']; [cbn in Hl; lia|].
  right. exists p', (pr_rem pr), (out ++ pr_out pr)%list, (bb_opt_union bb (pr_bb pr)), c1. repeat split; [lia | lia | exact H].
Qed.

(* ================= loops and conditionals as their unrolling (C16) ================= *)
(* <if>: the body exactly when the test is non-zero *)
Theorem if_true_is_body f e ks c test c1 : eget N e "test" = Some test -> eval_cond c test = (Ok true, c1) ->
  gen_if (S f) e (Some ks) c = process_events f ks c1.
Proof. intros Ht Hc. rewrite gen_if_S. rewrite Ht. unfold Pipeline.rbind. rewrite Hc. reflexivity. Qed.
Theorem if_false_is_nothing f e ks c test c1 : eget N e "test" = Some test -> eval_cond c test = (Ok false, c1) ->
  gen_if (S f) e (Some ks) c = (Ok ([], None), c1).
Proof. intros Ht Hc. rewrite gen_if_S. rewrite Ht. unfold Pipeline.rbind. rewrite Hc. reflexivity. Qed.

Definition set_loop_var (c : pctx) (nm : string) (v : f64) : pctx :=
  if nonempty nm then with_scopes c (set_var (px_scopes c) nm (f64_to_string v)) (px_estack c) else c.

(* count loops: no pass is made once the count is reached ... *)
Theorem loop_count_done f ex cnt nm st ks it v acc bb c : (cnt <= it)%Z ->
  loop_iter (S f) 0 ex cnt nm st ks it v acc bb c = (Ok (acc, bb), c).
Proof.
  intros H. rewrite loop_iter_S. cbv zeta. unfold Pipeline.rbind.
  assert (E : (it <? cnt)%Z = false) by (apply Z.ltb_ge; lia). rewrite E. reflexivity.
Qed.
(* ... and otherwise the loop is one pass of the body, with the loop variable set to the current value, followed by the
   loop for the remaining passes with the variable advanced by the step: the unrolling equation *)
Theorem loop_count_unrolls f ex cnt nm st ks it v acc bb c ev b c3 : (it < cnt)%Z ->
  process_events f ks (set_loop_var c nm v) = (Ok (ev, b), c3) -> (it + 1 <= c_loop_limit (px_cfg c3))%Z ->
  loop_iter (S f) 0 ex cnt nm st ks it v acc bb c =
  loop_iter f 0 ex cnt nm st ks (it + 1)%Z (f64_add v st) (acc ++ ev)%list (bb_opt_union bb b) c3.
Proof.
  intros Hlt Hb Hl. rewrite loop_iter_S. cbv zeta. unfold Pipeline.rbind.
  assert (E : (it <? cnt)%Z = true) by (apply Z.ltb_lt; lia). rewrite E. cbn [negb].
  fold (set_loop_var c nm v). rewrite Hb.
  assert (El : (c_loop_limit (px_cfg c3) <? it + 1)%Z = false) by (apply Z.ltb_ge; lia). rewrite El. reflexivity.
Qed.
(* while: the condition is tested before each pass *)
Theorem loop_while_tests_first f ex cnt nm st ks it v acc bb c c1 : eval_cond c ex = (Ok false, c1) ->
  loop_iter (S f) 1 ex cnt nm st ks it v acc bb c = (Ok (acc, bb), c1).
Proof. intros Hc. rewrite loop_iter_S. cbv zeta. unfold Pipeline.rbind. rewrite Hc. reflexivity. Qed.
Theorem loop_while_unrolls f ex cnt nm st ks it v acc bb c c1 ev b c3 : eval_cond c ex = (Ok true, c1) ->
  process_events f ks (set_loop_var c1 nm v) = (Ok (ev, b), c3) -> (it + 1 <= c_loop_limit (px_cfg c3))%Z ->
  loop_iter (S f) 1 ex cnt nm st ks it v acc bb c =
  loop_iter f 1 ex cnt nm st ks (it + 1)%Z (f64_add v st) (acc ++ ev)%list (bb_opt_union bb b) c3.
Proof.
  intros Hc Hb Hl. rewrite loop_iter_S. cbv zeta. unfold Pipeline.rbind. rewrite Hc. cbn [negb].
  fold (set_loop_var c1 nm v). rewrite Hb.
  assert (El : (c_loop_limit (px_cfg c3) <? it + 1)%Z = false) by (apply Z.ltb_ge; lia). rewrite El. reflexivity.
Qed.
(* until: the body runs before the condition is looked at (at least one pass); the condition ends the loop after a pass *)
Theorem loop_until_runs_first f ex cnt nm st ks it v acc bb c ev b c3 c4 :
  process_events f ks (set_loop_var c nm v) = (Ok (ev, b), c3) -> (it + 1 <= c_loop_limit (px_cfg c3))%Z ->
  eval_cond c3 ex = (Ok true, c4) ->
  loop_iter (S f) 2 ex cnt nm st ks it v acc bb c = (Ok ((acc ++ ev)%list, bb_opt_union bb b), c4).
Proof.
  intros Hb Hl Hc. rewrite loop_iter_S. cbv zeta. unfold Pipeline.rbind. cbn [negb].
  fold (set_loop_var c nm v). rewrite Hb.
  assert (El : (c_loop_limit (px_cfg c3) <? it + 1)%Z = false) by (apply Z.ltb_ge; lia). rewrite El. rewrite Hc. reflexivity.
Qed.
Theorem loop_until_unrolls f ex cnt nm st ks it v acc bb c ev b c3 c4 :
  process_events f ks (set_loop_var c nm v) = (Ok (ev, b), c3) -> (it + 1 <= c_loop_limit (px_cfg c3))%Z ->
  eval_cond c3 ex = (Ok false, c4) ->
  loop_iter (S f) 2 ex cnt nm st ks it v acc bb c =
  loop_iter f 2 ex cnt nm st ks (it + 1)%Z (f64_add v st) (acc ++ ev)%list (bb_opt_union bb b) c4.
Proof.
  intros Hb Hl Hc. rewrite loop_iter_S. cbv zeta. unfold Pipeline.rbind. cbn [negb].
  fold (set_loop_var c nm v). rewrite Hb.
  assert (El : (c_loop_limit (px_cfg c3) <? it + 1)%Z = false) by (apply Z.ltb_ge; lia). rewrite El. rewrite Hc. reflexivity.
Qed.
(* <for>: each item (and its index) is bound in turn *)
Definition set_for_vars (c : pctx) (var : string) (idxv : option string) (item : string) (idx : Z) : pctx :=
  with_scopes c (match idxv with
                 | Some iv => set_var (set_var (px_scopes c) var item) iv (int_str idx)
                 | None => set_var (px_scopes c) var item end) (px_estack c).
Theorem for_unrolls f var idxv ks item rest idx acc bb c ev b c1 :
  process_events f ks (set_for_vars c var idxv item idx) = (Ok (ev, b), c1) -> (idx + 1 <= c_loop_limit (px_cfg c1))%Z ->
  for_iter (S f) var idxv ks (item :: rest) idx acc bb c =
  for_iter f var idxv ks rest (idx + 1)%Z (acc ++ ev)%list (bb_opt_union bb b) c1.
Proof.
  intros Hb Hl. rewrite for_iter_S. cbv zeta. unfold Pipeline.rbind. fold (set_for_vars c var idxv item idx). rewrite Hb.
  assert (El : (c_loop_limit (px_cfg c1) <? idx + 1)%Z = false) by (apply Z.ltb_ge; lia). rewrite El. reflexivity.
Qed.
Theorem for_done f var idxv ks idx acc bb c : for_iter (S f) var idxv ks [] idx acc bb c = (Ok (acc, bb), c).
Proof. rewrite for_iter_S. reflexivity. Qed.

(* ================= reuse and specs (C18) ================= *)
(* an instantiation gives back exactly the scope stack and element stack it found, whatever happens inside:
   the bindings of one instance never reach the next one *)
Theorem reuse_scopes_exact fuel e c r c' : nn c -> gen_reuse fuel e c = (r, c') ->
  px_scopes c' = px_scopes c /\ px_estack c' = px_estack c.
Proof.
  intros Hn H. destruct fuel as [|f]; [cbn in H; injection H as <- <-; split; reflexivity|].
  rewrite gen_reuse_S in H. cbv zeta in H. unfold Pipeline.rbind in H.
  destruct (eval_attributes e c) as [[re| | |] c1] eqn:Ea; pose proof (eval_attributes_lonly _ _ _ _ Ea) as (L1 & L2 & L3 & _);
    try (injection H as <- <-; split; assumption).
  assert (Hn1 : nn c1) by (unfold nn in *; lia).
  destruct (match eget N re "href" with Some _ => _ | None => _ end) as [r3 c3] eqn:E3.
  injection H as <- <-.
  assert (I3 : inv (push_element c1 re) c3).
  { revert E3.
    destruct (eget N re "href") as [h|]; [|intros E; injection E as <- <-; apply inv_refl].
    destruct (parse_elref h) as [rf|]; [|intros E; injection E as <- <-; apply inv_refl].
    match goal with |- (match ?t with Some _ => _ | None => _ end) = _ -> _ => destruct t as [target|] end;
      [|intros E; injection E as <- <-; apply inv_refl].
    destruct (instantiate (push_element c1 re) re target) as [[inst| | |] l]; try (intros E; injection E as <- <-; apply inv_with_l).
    assert (Il : inv (push_element c1 re) (with_l (push_element c1 re) l)) by apply inv_with_l.
    destruct (eempty N inst).
    - intros E. eapply inv_trans; [exact Il | eapply gen_frame; [exact Hn1 | exact E]].
    - destruct (kidtab (eidx N target)); intros E; (eapply inv_trans; [exact Il|]);
        [eapply process_events_frame; [exact Hn1 | exact E] | eapply gen_frame; [exact Hn1 | exact E]]. }
  destruct I3 as (S1 & [top' S2] & _). cbn. rewrite S1, S2. cbn. split; assumption.
Qed.

(* <specs> renders nothing *)
Theorem specs_renders_nothing fuel e kids c ev b c' : gen_specs fuel e kids c = (Ok (ev, b), c') -> ev = [] /\ b = None.
Proof.
  intros H. destruct fuel as [|f]; [cbn in H; discriminate|]. rewrite gen_specs_S in H. cbv zeta in H.
  destruct (px_specs c); [discriminate|]. destruct kids as [ks|]; [|injection H as <- <- _; split; reflexivity].
  destruct (process_events f ks (with_specs c true)) as [[x| | |] c1]; try discriminate.
  injection H as <- <- _. split; reflexivity.
Qed.
(* the template used by reuse is the FIRST registration of an id: later registrations never change it *)
Theorem original_is_first_registration c e id0 e0 : assoc id0 (l_orig (px_l c)) = Some e0 ->
  (forall i, assoc i (l_orig (px_l c)) <> None -> assoc i (Pipeline.l_map N ES (px_l c)) <> None) ->
  assoc id0 (l_orig (px_l (update_element c e))) = Some e0.
Proof.
  intros H Hinv. unfold Pipeline.update_element. destruct (eget N e "id") as [idv|]; [|exact H].
  cbn [Pipeline.px_l Pipeline.with_l Pipeline.l_orig].
  set (idv' := match eva _ _ idv _ with Ok (s0, _) => s0 | _ => idv end).
  destruct (assoc idv' (Pipeline.l_map N ES (px_l c))) eqn:Em; [exact H|].
  cbn [assoc]. destruct (String.eqb id0 idv') eqn:Eq; [|exact H].
  apply String.eqb_eq in Eq. subst idv'. exfalso. apply (Hinv id0); [rewrite H; discriminate | rewrite Eq; exact Em].
Qed.
End P.
