(* Lemmas about the expression evaluator (Model/Expr.v, Model/Funcs.v). *)
From Coq Require Import String Ascii List Bool Arith ZArith Lia.
From SvgdxModel Require Import Base.Str Base.Res Num.NumOps Num.XOps Gen.Tables Model.Funcs Model.Expr.
Import ListNotations.

Section ExprP.
Context {N : NumOps} (X : XOps N).
Context (getvar : string -> option string) (elref_val : string -> res (num N)) (vbound : nat).
Local Notation value := (@value N).
Local Notation est := (est X).
Local Notation token := (@token N).
Local Notation call := (@call N).
Local Notation R := (@R N X).
Local Notation body := (run_body X getvar elref_val).
Local Notation run := (run X getvar elref_val).

Lemma of_bool_01 (b : bool) : @of_bool N b = nofZ N 0 \/ @of_bool N b = nofZ N 1.
Proof. destruct b; [right | left]; reflexivity. Qed.

(* ------------------------------------------------------------------ fuel monotonicity *)
Definition le_res (r r' : R) : Prop := r = OutOfFuel \/ r = r'.

Ltac mono_step H :=
  match goal with
  | |- le_res ?a ?a => right; reflexivity
  | |- le_res OutOfFuel _ => left; reflexivity
  | |- context [?rec ?c ?cv ?d ?ts ?st] =>
      match type of H with forall _ _ _ _ _, le_res (rec _ _ _ _ _) _ =>
        let E := fresh "E" in destruct (H c cv d ts st) as [E|E]; rewrite E; clear E end
  | |- le_res (match ?x with _ => _ end) _ => destruct x
  | |- le_res (bind ?x _) _ => destruct x
  end; cbn [bind].

Lemma body_mono (rec rec' : call -> list string -> nat -> list token -> est -> R) :
  (forall c cv d ts st, le_res (rec c cv d ts st) (rec' c cv d ts st)) ->
  forall c cv d ts st, le_res (body rec c cv d ts st) (body rec' c cv d ts st).
Proof.
  intros H c cv d ts st. destruct c; unfold run_body; repeat (mono_step H).
Qed.

Lemma run_le f : forall c cv d ts st, le_res (run f c cv d ts st) (run (S f) c cv d ts st).
Proof.
  induction f as [|f IH]; intros; [left; reflexivity|].
  change (le_res (body (run f) c cv d ts st) (body (run (S f)) c cv d ts st)).
  apply body_mono. exact IH.
Qed.

Lemma run_mono n m c cv d ts st r :
  n <= m -> run n c cv d ts st = r -> r <> OutOfFuel -> run m c cv d ts st = r.
Proof.
  intros Hle. induction Hle as [|m Hle IH]; intros E Hr; [exact E|].
  destruct (run_le m c cv d ts st) as [E'|E']; [rewrite (IH E Hr) in E'; congruence|].
  rewrite <- E'. exact (IH E Hr).
Qed.

(* ------------------------------------------------------------------ what a successful evaluation has consumed *)
(* parentheses: scanning with a counter that never goes below zero *)
Fixpoint scan (n : nat) (l : list token) : option nat :=
  match l with
  | [] => Some n
  | TOpen :: r => scan (S n) r
  | TClose :: r => match n with O => None | S m => scan m r end
  | _ :: r => scan n r
  end.
Definition balanced (l : list token) : Prop := scan 0 l = Some 0.

Definition sym_ok (s : string) : Prop :=
  logical_op s <> None \/ comparison_op s <> None \/ exists fn, function_of s = Ok fn.
(* [P] describes the token lists of variable texts one level further down (the evaluation of a variable's text
   is itself an evaluation): a consumed variable is defined, is not being expanded, its text tokenizes and the
   tokens satisfy P under the extended expansion list *)
Definition var_deep (P : list string -> list token -> Prop) (v : string) (cv : list string) : Prop :=
  exists s toks, getvar v = Some s /\ tokenize X s = Ok toks /\ (toks = [] \/ P (v :: cv) toks).
Definition tok_ok (P : list string -> list token -> Prop) (cv : list string) (t : token) : Prop :=
  match t with
  | TSym s => sym_ok s
  | TVar v => getvar v <> None /\ ~ In v cv /\ var_deep P v cv
  | _ => True
  end.
Definition wfP (P : list string -> list token -> Prop) (cv : list string) (l : list token) : Prop :=
  Forall (tok_ok P cv) l /\ balanced l.
(* the shallow form: nothing is said about the tokens of the variable texts *)
Definition wf (cv : list string) (l : list token) : Prop := wfP (fun _ _ => True) cv l.
(* n levels of variable texts *)
Fixpoint deep (n : nat) : list string -> list token -> Prop :=
  match n with O => fun _ _ => False | S n' => wfP (deep n') end.

Lemma var_deep_mono (P Q : list string -> list token -> Prop) v cv :
  (forall cv l, P cv l -> Q cv l) -> var_deep P v cv -> var_deep Q v cv.
Proof. intros H (s & toks & Hg & Ht & [E|Hp]); exists s, toks; repeat split; auto. Qed.
Lemma wfP_mono (P Q : list string -> list token -> Prop) cv l :
  (forall cv l, P cv l -> Q cv l) -> wfP P cv l -> wfP Q cv l.
Proof.
  intros H [F B]. split; [|exact B]. eapply Forall_impl; [|exact F].
  intros [] Ht; cbn [tok_ok] in *; auto. destruct Ht as (A & B' & D). repeat split; auto. eapply var_deep_mono; eauto.
Qed.
Lemma deep_mono n : forall cv l, deep n cv l -> deep (S n) cv l.
Proof.
  induction n as [|n IH]; intros cv l H; [contradiction|].
  cbn [deep] in *. eapply wfP_mono; [|exact H]. exact IH.
Qed.
Lemma deep_wf n cv l : deep n cv l -> wf cv l.
Proof. destruct n; [contradiction|]. cbn [deep]. apply wfP_mono. auto. Qed.

Lemma scan_app n a b : scan n (a ++ b) = match scan n a with Some m => scan m b | None => None end.
Proof.
  revert n; induction a as [|t a IH]; intros n; [reflexivity|].
  destruct t; cbn [scan app]; try apply IH. destruct n; [reflexivity | apply IH].
Qed.
Lemma scan_shift k a : forall n m, scan n a = Some m -> scan (k + n) a = Some (k + m).
Proof.
  induction a as [|t a IH]; intros n m H; cbn [scan] in *; [congruence|].
  destruct t; try (apply IH; exact H).
  - rewrite plus_n_Sm. apply IH. exact H.
  - destruct n; [discriminate|]. rewrite <- plus_n_Sm. apply IH. exact H.
Qed.
Lemma balanced_scan a n : balanced a -> scan n a = Some n.
Proof. intros H. pose proof (scan_shift n a 0 0 H) as E. rewrite Nat.add_0_r in E. exact E. Qed.

Lemma wf_nil P cv : wfP P cv [].
Proof. split; [constructor | reflexivity]. Qed.
Lemma wf_app P cv a b : wfP P cv a -> wfP P cv b -> wfP P cv (a ++ b).
Proof.
  intros [Fa Ba] [Fb Bb]. split; [apply Forall_app; split; assumption|].
  unfold balanced. rewrite scan_app, Ba. exact Bb.
Qed.
Lemma wf_plain P cv t : tok_ok P cv t -> t <> TOpen -> t <> TClose -> wfP P cv [t].
Proof. intros Ht H1 H2. split; [repeat constructor; exact Ht|]. destruct t; try reflexivity; congruence. Qed.
Lemma wf_paren P cv a : wfP P cv a -> wfP P cv (TOpen :: a ++ [TClose]).
Proof.
  intros [Fa Ba]. split.
  - constructor; [exact I|]. apply Forall_app; split; [exact Fa | repeat constructor].
  - unfold balanced. cbn [scan]. rewrite scan_app, (balanced_scan a 1 Ba). reflexivity.
Qed.

(* ------------------------------------------------------------------ no panic: values, functions, tokenizer *)
Definition np {A} (r : res A) : Prop := forall s, r <> Panic s.
Lemma np_ok {A} (a : A) : np (Ok a). Proof. intros s; discriminate. Qed.
Lemma np_err {A} k : np (@Err A k). Proof. intros s; discriminate. Qed.
Lemma np_oof {A} : np (@OutOfFuel A). Proof. intros s; discriminate. Qed.
Lemma np_bind {A B} (x : res A) (f : A -> res B) : np x -> (forall a, x = Ok a -> np (f a)) -> np (bind x f).
Proof. intros Hx Hf. destruct x; cbn [bind]; [apply Hf; reflexivity | apply np_err | exfalso; exact (Hx site eq_refl) | apply np_oof]. Qed.
Lemma np_of_opt {A} k (o : option A) : np (of_opt k o).
Proof. destruct o; [apply np_ok | apply np_err]. Qed.
Lemma np_mapM {A B} (f : A -> res B) l : (forall a, np (f a)) -> np (mapM f l).
Proof.
  intros Hf. induction l as [|a l IH]; cbn [mapM]; [apply np_ok|].
  apply np_bind; [apply Hf|]. intros b _. apply np_bind; [exact IH|]. intros; apply np_ok.
Qed.
Lemma np_sval_num (s : @sval N) : np (sval_num s). Proof. destruct s; [apply np_ok | apply np_err | apply np_err]. Qed.
Lemma np_sval_str (s : @sval N) : np (sval_str s). Proof. destruct s; [apply np_err | apply np_ok | apply np_ok]. Qed.
Lemma np_number_list (v : value) : np (number_list v).
Proof. destruct v as [[]|l]; cbn; [apply np_ok | apply np_err | apply np_err | apply np_mapM, np_sval_num]. Qed.
Lemma np_one_number (v : value) : np (one_number v).
Proof. apply np_bind; [apply np_number_list|]. intros [|a [|]] _; first [apply np_ok | apply np_err]. Qed.
Lemma np_number_pair (v : value) : np (number_pair v).
Proof. apply np_bind; [apply np_number_list|]. intros [|a [|b [|]]] _; first [apply np_ok | apply np_err]. Qed.
Lemma np_number_triple (v : value) : np (number_triple v).
Proof. apply np_bind; [apply np_number_list|]. intros [|a [|b [|c [|]]]] _; first [apply np_ok | apply np_err]. Qed.
Lemma np_pair (v : value) : np (pair v).
Proof. unfold pair. destruct (flatten v) as [|a [|b [|]]]; first [apply np_ok | apply np_err]. Qed.
Lemma np_string_list (v : value) : np (string_list v).
Proof.
  destruct v as [s0|l]; cbn [string_list]; [|apply np_mapM, np_sval_str].
  apply np_bind; [apply np_sval_str|]. intros; apply np_ok.
Qed.
Lemma np_one_string (v : value) : np (one_string v).
Proof. apply np_bind; [apply np_string_list|]. intros [|a [|]] _; first [apply np_ok | apply np_err]. Qed.
Lemma np_string_pair (v : value) : np (string_pair v).
Proof. apply np_bind; [apply np_string_list|]. intros [|a [|b [|]]] _; first [apply np_ok | apply np_err]. Qed.
Lemma np_halves f l : np (@halves N f l).
Proof. unfold halves. destruct (Nat.even _); [apply np_ok | apply np_err]. Qed.

(* the law of the comparison operations the clamp guard relies on: not (a <= b) means b < a or unordered *)
Context (Hle_total : forall a b : num N, nleb N a b = false ->
           nltb N b a = true \/ xis_nan X a = true \/ xis_nan X b = true).

Ltac np_arg :=
  first [ apply np_one_number | apply np_number_pair | apply np_number_triple | apply np_number_list
        | apply np_pair | apply np_string_list | apply np_one_string | apply np_string_pair
        | apply np_sval_num | apply np_halves ].

Ltac np_fin := repeat first
  [ apply np_ok | apply np_err
  | apply np_bind; [np_arg|]; intros
  | match goal with
    | p : (_ * _)%type |- _ => destruct p
    | |- np (match ?x with _ => _ end) => destruct x eqn:?
    | |- np (if ?b then _ else _) => destruct b eqn:?
    | |- np (let '(_, _) := ?x in _) => destruct x
    end ].

Lemma eval_function_np fn args st : np (eval_function X fn args st).
Proof.
  destruct fn; unfold eval_function, ret, ret_libm, unsupported; np_fin.
  - (* FRandInt: random_range is reached with lo <= hi only *)
    match goal with H : (?b <? ?a)%Z = false |- _ =>
      apply Z.ltb_ge in H; unfold std_random_range; destruct (Z.leb_spec a b); [|lia] end.
    cbn [bind]. np_fin.
  - (* FClamp: the guard covers the assertion of f32::clamp *)
    match goal with H : (nltb N ?hi ?lo || xis_nan X ?lo || xis_nan X ?hi)%bool = false |- _ =>
      apply orb_false_elim in H; destruct H as [H H3]; apply orb_false_elim in H; destruct H as [H1 H2];
      unfold std_clamp; destruct (nleb N lo hi) eqn:L;
      [cbn [bind]; np_fin | destruct (Hle_total _ _ L) as [E|[E|E]]; congruence] end.
  - (* FSelect: the index was compared with the length *)
    exfalso.
    match goal with H : nth_error ?l (Z.to_nat ?n) = None, H1 : (?n <? Z.of_nat (length ?l))%Z = true |- _ =>
      apply nth_error_None in H; apply Z.ltb_lt in H1; cbn [length] in *; lia end.
Qed.

Lemma np_valid_variable_name v : np (valid_variable_name v).
Proof. unfold valid_variable_name. np_fin. Qed.
Lemma np_tokenize_atom s : np (tokenize_atom X s).
Proof.
  unfold tokenize_atom. destruct (strip_prefix "$" s).
  - destruct (match strip_prefix "{" s0 with Some inner => strip_suffix "}" inner | None => Some s0 end);
      [|apply np_err]. apply np_bind; [apply np_valid_variable_name|]. intros; apply np_ok.
  - np_fin.
Qed.
Lemma np_flush buf toks : np (flush X buf toks).
Proof.
  unfold flush. destruct buf; [apply np_ok|]. apply np_bind; [apply np_tokenize_atom|]. intros; apply np_ok.
Qed.
Lemma np_tok_loop s : forall toks buf e q esc, np (tok_loop X s toks buf e q esc).
Proof.
  induction s as [|ch r IH]; intros; cbn [tok_loop].
  - destruct buf; [apply np_ok|]. destruct q; [apply np_err|].
    apply np_bind; [apply np_flush|]. intros; apply np_ok.
  - destruct q.
    + repeat match goal with |- np (if ?b then _ else _) => destruct b end; apply IH.
    + destruct (classify ch e); try apply IH; (apply np_bind; [apply np_flush|]; intros; apply IH).
Qed.
(* nothing but [run] uses fuel *)
Definition nf {A} (r : res A) : Prop := r <> OutOfFuel.
Lemma nf_bind {A B} (x : res A) (f : A -> res B) : nf x -> (forall a, nf (f a)) -> nf (bind x f).
Proof. intros Hx Hf. destruct x; cbn [bind]; try discriminate; [apply Hf | exfalso; exact (Hx eq_refl)]. Qed.
Lemma nf_ok {A} (a : A) : nf (Ok a). Proof. discriminate. Qed.
Lemma nf_err {A} k : nf (@Err A k). Proof. discriminate. Qed.
Lemma nf_panic {A} s : nf (@Panic A s). Proof. discriminate. Qed.
Lemma nf_mapM {A B} (f : A -> res B) l : (forall a, nf (f a)) -> nf (mapM f l).
Proof.
  intros Hf. induction l as [|a l IH]; cbn [mapM]; [apply nf_ok|].
  apply nf_bind; [apply Hf|]. intros b. apply nf_bind; [exact IH|]. intros; apply nf_ok.
Qed.
Lemma nf_sval_num (s : @sval N) : nf (sval_num s). Proof. destruct s; discriminate. Qed.
Lemma nf_sval_str (s : @sval N) : nf (sval_str s). Proof. destruct s; discriminate. Qed.
Lemma nf_number_list (v : value) : nf (number_list v).
Proof. destruct v as [[]|l]; cbn; try discriminate. apply nf_mapM, nf_sval_num. Qed.
Lemma nf_one_number (v : value) : nf (one_number v).
Proof. apply nf_bind; [apply nf_number_list|]. intros [|a [|]]; discriminate. Qed.
Lemma nf_number_pair (v : value) : nf (number_pair v).
Proof. apply nf_bind; [apply nf_number_list|]. intros [|a [|b [|]]]; discriminate. Qed.
Lemma nf_number_triple (v : value) : nf (number_triple v).
Proof. apply nf_bind; [apply nf_number_list|]. intros [|a [|b [|c [|]]]]; discriminate. Qed.
Lemma nf_pair (v : value) : nf (pair v).
Proof. unfold pair. destruct (flatten v) as [|a [|b [|]]]; discriminate. Qed.
Lemma nf_string_list (v : value) : nf (string_list v).
Proof.
  destruct v as [s0|l]; cbn [string_list]; [|apply nf_mapM, nf_sval_str].
  apply nf_bind; [apply nf_sval_str|]. intros; apply nf_ok.
Qed.
Lemma nf_one_string (v : value) : nf (one_string v).
Proof. apply nf_bind; [apply nf_string_list|]. intros [|a [|]]; discriminate. Qed.
Lemma nf_string_pair (v : value) : nf (string_pair v).
Proof. apply nf_bind; [apply nf_string_list|]. intros [|a [|b [|]]]; discriminate. Qed.
Lemma nf_halves f l : nf (@halves N f l).
Proof. unfold halves. destruct (Nat.even _); discriminate. Qed.
Ltac nf_arg :=
  first [ apply nf_one_number | apply nf_number_pair | apply nf_number_triple | apply nf_number_list
        | apply nf_pair | apply nf_string_list | apply nf_one_string | apply nf_string_pair
        | apply nf_sval_num | apply nf_halves ].
Ltac nf_fin := repeat first
  [ apply nf_ok | apply nf_err | apply nf_panic
  | apply nf_bind; [nf_arg|]; intros
  | match goal with
    | p : (_ * _)%type |- _ => destruct p
    | |- nf (match ?x with _ => _ end) => destruct x eqn:?
    | |- nf (if ?b then _ else _) => destruct b eqn:?
    | |- nf (let '(_, _) := ?x in _) => destruct x
    end ].
Lemma nf_eval_function fn args st : nf (eval_function X fn args st).
Proof.
  destruct fn; unfold eval_function, ret, ret_libm, unsupported; nf_fin.
  - unfold std_random_range. apply nf_bind; [nf_fin|]. intros; nf_fin.
  - unfold std_clamp. apply nf_bind; [nf_fin|]. intros; nf_fin.
Qed.
Lemma nf_function_of s : nf (function_of s).
Proof. unfold function_of. nf_fin. Qed.
Lemma nf_valid_variable_name v : nf (valid_variable_name v).
Proof. unfold valid_variable_name, nf. destruct v; [discriminate|]. repeat match goal with |- (if ?b then _ else _) <> _ => destruct b end; discriminate. Qed.
Lemma nf_tokenize_atom s : nf (tokenize_atom X s).
Proof.
  unfold tokenize_atom. destruct (strip_prefix "$" s).
  - destruct (match strip_prefix "{" s0 with Some inner => strip_suffix "}" inner | None => Some s0 end);
      [|discriminate]. apply nf_bind; [apply nf_valid_variable_name | discriminate].
  - unfold nf. repeat match goal with
      | |- (if ?b then _ else _) <> _ => destruct b
      | |- match ?x with _ => _ end <> _ => destruct x end; discriminate.
Qed.
Lemma nf_flush buf toks : nf (flush X buf toks).
Proof. unfold flush. destruct buf; [discriminate|]. apply nf_bind; [apply nf_tokenize_atom | discriminate]. Qed.
Lemma nf_tok_loop s : forall toks buf e q esc, nf (tok_loop X s toks buf e q esc).
Proof.
  induction s as [|ch r IH]; intros; cbn [tok_loop].
  - destruct buf; [discriminate|]. destruct q; [discriminate|].
    apply nf_bind; [apply nf_flush | discriminate].
  - destruct q.
    + repeat match goal with |- nf (if ?b then _ else _) => destruct b end; apply IH.
    + destruct (classify ch e); try apply IH; (apply nf_bind; [apply nf_flush|]; intros; apply IH).
Qed.
Lemma tokenize_no_oof s : tokenize X s <> OutOfFuel.
Proof. apply nf_tok_loop. Qed.

Lemma np_function_of s : np (function_of s).
Proof. unfold function_of. np_fin. Qed.
Lemma np_tokenize s : np (tokenize X s).
Proof. apply np_tok_loop. Qed.

(* ------------------------------------------------------------------ the invariant of every call *)
Context (Helref : forall v, np (elref_val v)).

Definition consumes (c : call) : bool :=
  match c with CListLoop _ | CLogical | CComparison | CTerm | CFactor | CPrimary => true | _ => false end.
Definition call_post (P : list string -> list token -> Prop) (c : call) (cv : list string) : Prop :=
  match c with CLookup v => getvar v <> None /\ ~ In v cv /\ var_deep P v cv | _ => True end.
(* Q: what the consumed tokens satisfy; Pp: the level below, for the text of a looked-up variable *)
Definition good (Q Pp : list string -> list token -> Prop) (c : call) (cv : list string) (ts : list token) (r : R) : Prop :=
  match r with
  | Panic _ => False
  | Ok (_, ts1, _) => exists used, ts = (used ++ ts1)%list /\ Q cv used /\ (consumes c = true -> used <> [])
                                   /\ call_post Pp c cv
  | _ => True
  end.

Lemma good_ok (Q Pp : list string -> list token -> Prop) c cv ts used ts1 v st :
  ts = (used ++ ts1)%list -> Q cv used -> (consumes c = true -> used <> []) -> call_post Pp c cv ->
  good Q Pp c cv ts (Ok (v, ts1, st)).
Proof. intros. exists used. auto. Qed.

Ltac use_rec H u :=
  match goal with |- context [?rec ?c ?cv ?d ?ts ?st] =>
    match type of H with forall _ _ _ _ _, good _ _ _ _ _ (rec _ _ _ _ _) =>
      let G := fresh "G" in pose proof (H c cv d ts st) as G;
      destruct (rec c cv d ts st) as [[[? ?] ?]| | |]; cbn [bind]; cbn [good] in G;
      [ let Hu := fresh "Hu" in destruct G as (u & ? & Hu & ? & ?);
        match goal with M1 : forall cv l, _ cv l -> wfP _ cv l |- _ => pose proof (M1 _ _ Hu) end
      | exact I | contradiction | exact I ] end end.
Ltac list_eq := subst; try match goal with E : ?a = _ |- ?a = _ => etransitivity; [exact E|] end;
                repeat first [rewrite <- app_assoc | progress (cbn [app])]; reflexivity.
Ltac tok_tac := cbn [tok_ok call_post] in *; unfold sym_ok;
  first [ exact I | assumption | left; congruence | right; left; congruence | right; right; eexists; eassumption
        | match goal with Hp : _ /\ _ /\ var_deep _ _ _, M0 : forall cv l, _ cv l -> _ cv l |- _ /\ _ /\ var_deep _ _ _ =>
            destruct Hp as (? & ? & ?); repeat split; [assumption | assumption | eapply var_deep_mono; [exact M0 | eassumption]] end
        | auto ].
Ltac wf_tac := repeat first [ assumption | apply wf_nil | apply wf_app | apply wf_paren
                            | apply wf_plain; [tok_tac | discriminate | discriminate] ].
Ltac post_tac := cbn [call_post]; auto.
Ltac ne_tac :=
  cbn [consumes];
  first [ let Hc := fresh in intros Hc; discriminate Hc
        | let E := fresh "E" in intros _ E;
          repeat (apply app_eq_nil in E; destruct E as [? E]); try discriminate; subst;
          match goal with Hn : consumes _ = true -> ?u <> ?u |- _ => exact (Hn eq_refl eq_refl) end ].
Ltac fin u := apply (good_ok _ _ _ _ _ u); [list_eq | wf_tac | try ne_tac | post_tac].
Ltac pure_bind lem :=
  match goal with |- good _ _ _ _ _ (bind ?x _) =>
    let E := fresh "E" in pose proof (lem) as E; destruct x eqn:?; cbn [bind];
    [ clear E | exact I | exfalso; exact (E _ eq_refl) | exact I ] end.

Lemma body_good (P P0 : list string -> list token -> Prop) (rec : call -> list string -> nat -> list token -> est -> R) :
  (forall cv l, P0 cv l -> P cv l) -> (forall cv l, P cv l -> wfP P cv l) ->
  (forall c cv d ts st, good P P0 c cv ts (rec c cv d ts st)) ->
  forall c cv d ts st, good (wfP P) P c cv ts (body rec c cv d ts st).
Proof.
  intros M0 M1 H c cv d ts st. destruct c; unfold run_body.
  - (* CExprList *)
    destruct after_open.
    + destruct ts as [|[] r].
      all: try (use_rec H u; fin u; auto).
      fin (@nil token).
    + use_rec H u. fin u.
  - (* CListLoop *)
    use_rec H u. destruct l as [|[] r]; try (fin u; auto).
    use_rec H u2. fin (u ++ [TComma] ++ u2)%list.
  - (* CLogical *)
    use_rec H u. use_rec H u2. fin (u ++ u2)%list.
  - (* CLogicalLoop *)
    destruct ts as [|[] r]; try (fin (@nil token)).
    destruct (logical_op s) eqn:L; [|fin (@nil token)].
    use_rec H u. pure_bind (np_one_number v). pure_bind (np_one_number e).
    use_rec H u2.

    fin ([TSym s] ++ u ++ u2)%list.
  - (* CComparison *)
    use_rec H u. destruct (one_number v) eqn:E1; try (fin u).
    destruct l as [|[] r]; try (fin u).
    destruct (comparison_op s) eqn:C; [|fin u].
    use_rec H u2. pure_bind (np_one_number v0).
    fin (u ++ [TSym s] ++ u2)%list.
  - (* CTerm *)
    use_rec H u. destruct (one_number v) eqn:E1; try (fin u). use_rec H u2. fin (u ++ u2)%list.
  - (* CTermLoop *)
    destruct ts as [|[] r]; try (fin (@nil token)).
    + use_rec H u. pure_bind (np_one_number v). use_rec H u2. fin ([TAdd] ++ u ++ u2)%list.
    + use_rec H u. pure_bind (np_one_number v). use_rec H u2. fin ([TSub] ++ u ++ u2)%list.
  - (* CFactor *)
    use_rec H u. destruct (one_number v) eqn:E1; try (fin u). use_rec H u2. fin (u ++ u2)%list.
  - (* CFactorLoop *)
    destruct ts as [|[] r]; try (fin (@nil token)).
    + use_rec H u. pure_bind (np_one_number v). use_rec H u2. fin ([TMul] ++ u ++ u2)%list.
    + use_rec H u. pure_bind (np_one_number v). use_rec H u2. fin ([TDiv] ++ u ++ u2)%list.
    + use_rec H u. pure_bind (np_one_number v). use_rec H u2. fin ([TMod] ++ u ++ u2)%list.
  - (* CPrimary *)
    destruct (max_expr_depth <? S d)%nat; [exact I|].
    destruct ts as [|[] r]; try exact I.
    + fin [TNum x].
    + use_rec H u. fin ([TVar s] ++ u)%list.
    + pure_bind (Helref s). fin [@TElRef N s].
    + fin [@TStr N s].
    + pure_bind (np_function_of s). destruct r as [|[] r1]; try exact I.
      use_rec H u.
      match goal with |- good _ _ _ _ _ (bind (eval_function X ?f ?a ?s) _) => pure_bind (eval_function_np f a s) end.
      match goal with p : (_ * _)%type |- _ => destruct p as [e1 st2] end. destruct l as [|[] r2]; try exact I.
      fin ([TSym s] ++ (TOpen :: u ++ [TClose]))%list.
    + use_rec H u. destruct l as [|[] r1]; try exact I. fin (TOpen :: u ++ [TClose])%list.
    + use_rec H u. pure_bind (np_one_number v). fin ([TSub] ++ u)%list.
  - (* CLookup *)
    destruct (mem_str v cv) eqn:M; [exact I|]. destruct (getvar v) eqn:G; [|exact I].
    assert (Hnin : ~ In v cv) by (rewrite <- mem_str_In; congruence).
    match goal with |- good _ _ _ _ _ (bind (tokenize X ?s) _) => pure_bind (np_tokenize s) end.
    match goal with |- good _ _ _ _ _ (match ?l with [] => _ | _ => _ end) => destruct l as [|t toks] end.
    + apply (good_ok _ _ _ _ _ (@nil token)); [list_eq | wf_tac | try ne_tac |].
      cbn [call_post]. split; [congruence|]. split; [exact Hnin|]. eexists _, []. split; [eassumption|]. split; [eassumption | left; reflexivity].
    + use_rec H u.
      match goal with |- good _ _ _ _ _ (match ?l with [] => _ | _ => _ end) => destruct l end; [|exact I].
      apply (good_ok _ _ _ _ _ (@nil token)); [list_eq | wf_tac | try ne_tac |].
      cbn [call_post]. split; [congruence|]. split; [exact Hnin|].
      eexists _, (t :: toks). split; [eassumption|]. split; [eassumption | right].
      match goal with E : t :: toks = (u ++ [])%list |- _ => rewrite app_nil_r in E; rewrite E end. assumption.
Qed.

Lemma run_good f : forall c cv d ts st, good (deep f) (deep (pred f)) c cv ts (run f c cv d ts st).
Proof.
  induction f as [|f IH]; intros; [exact I|].
  change (good (wfP (deep f)) (deep f) c cv ts (body (run f) c cv d ts st)).
  apply body_good with (P0 := deep (pred f)); [|exact (deep_mono f)|exact IH].
  destruct f; [intros ? ? []|]. exact (deep_mono f).
Qed.

Lemma run_no_panic f c cv d ts st s : run f c cv d ts st <> Panic s.
Proof. intros E. pose proof (run_good f c cv d ts st) as G. rewrite E in G. exact G. Qed.

(* ------------------------------------------------------------------ the stated fuel suffices *)
Context (Hvb : forall v s toks, getvar v = Some s -> tokenize X s = Ok toks -> length toks <= vbound).
Context (Helref_nf : forall v, elref_val v <> OutOfFuel).

Definition rank (c : call) : nat :=
  match c with
  | CExprList _ => 10 | CListLoop _ => 9 | CLogical => 8 | CLogicalLoop _ => 8 | CComparison => 7
  | CTerm => 6 | CTermLoop _ => 6 | CFactor => 5 | CFactorLoop _ => 5 | CPrimary => 4 | CLookup _ => 0
  end.
Definition Wv : nat := 12 * vbound + 12.
Definition Dd (d : nat) : nat := (max_expr_depth + 1 - d) * Wv.
Definition bound (c : call) (d : nat) (ts : list token) : nat :=
  match c with
  | CLookup _ => 12 * vbound + 11 + Dd d
  | _ => 12 * length ts + rank c + Dd d
  end.
Lemma Dd_S d : Dd (S d) <= Dd d.
Proof. unfold Dd. apply Nat.mul_le_mono_r. lia. Qed.
Lemma Dd_step d : S d <= max_expr_depth -> Dd (S d) + Wv <= Dd d.
Proof.
  intros H. unfold Dd. replace (max_expr_depth + 1 - d) with (S (max_expr_depth + 1 - S d)) by lia.
  cbn [Nat.mul]. lia.
Qed.

Ltac bound_tac :=
  unfold bound, rank in *; subst; cbn [length] in *; rewrite ?app_length in *; cbn [length] in *;
  repeat match goal with d : nat |- _ => lazymatch goal with
           | _ : Dd (S d) <= Dd d |- _ => fail | _ => pose proof (Dd_S d) end end;
  lia.
Ltac use2 Hg Hf u :=
  match goal with |- context [?rec ?c ?cv ?d ?ts ?st] =>
    match type of Hg with forall _ _ _ _ _, good _ _ _ _ _ (rec _ _ _ _ _) =>
      let G := fresh "G" in let NF := fresh "NF" in
      pose proof (Hg c cv d ts st) as G;
      assert (rec c cv d ts st <> OutOfFuel) as NF by (apply Hf; bound_tac);
      destruct (rec c cv d ts st) as [[[? ?] ?]| | |]; cbn [bind]; cbn [good] in G;
      [ destruct G as (u & ? & _ & ? & _);
        try (assert (1 <= length u) by (destruct u; [exfalso; match goal with Hn : _ -> [] <> [] |- _ => exact (Hn eq_refl eq_refl) end | cbn [length]; lia]))
      | discriminate | contradiction | congruence ] end end.
Ltac pure2 lem := match goal with |- bind ?x _ <> OutOfFuel =>
                let E := fresh "E" in pose proof lem as E;
                destruct x eqn:?; cbn [bind]; [ clear E | discriminate | discriminate | exfalso; exact (E eq_refl) ] end.

Lemma body_fuel (Q Pp : list string -> list token -> Prop) (rec : call -> list string -> nat -> list token -> est -> R) n :
  (forall c cv d ts st, good Q Pp c cv ts (rec c cv d ts st)) ->
  (forall c cv d ts st, bound c d ts <= n -> rec c cv d ts st <> OutOfFuel) ->
  forall c cv d ts st, bound c d ts <= S n -> body rec c cv d ts st <> OutOfFuel.
Proof.
  intros Hg Hf c cv d ts st Hb. destruct c; unfold run_body.
  - (* CExprList *)
    destruct after_open; [destruct ts as [|[] r]|]; try discriminate; apply Hf; bound_tac.
  - (* CListLoop *)
    use2 Hg Hf u. destruct l as [|[] r]; try discriminate. apply Hf; bound_tac.
  - (* CLogical *)
    use2 Hg Hf u. apply Hf; bound_tac.
  - (* CLogicalLoop *)
    destruct ts as [|[] r]; try discriminate. destruct (logical_op s); [|discriminate].
    use2 Hg Hf u. pure2 (nf_one_number v). pure2 (nf_one_number e). apply Hf; bound_tac.
  - (* CComparison *)
    use2 Hg Hf u. destruct (one_number v); try discriminate.
    destruct l as [|[] r]; try discriminate. destruct (comparison_op s); [|discriminate].
    use2 Hg Hf u2. pure2 (nf_one_number v0). discriminate.
  - (* CTerm *)
    use2 Hg Hf u. destruct (one_number v); try discriminate. apply Hf; bound_tac.
  - (* CTermLoop *)
    destruct ts as [|[] r]; try discriminate; use2 Hg Hf u; (pure2 (nf_one_number v)); apply Hf; bound_tac.
  - (* CFactor *)
    use2 Hg Hf u. destruct (one_number v); try discriminate. apply Hf; bound_tac.
  - (* CFactorLoop *)
    destruct ts as [|[] r]; try discriminate; use2 Hg Hf u; (pure2 (nf_one_number v)); apply Hf; bound_tac.
  - (* CPrimary *)
    destruct (Nat.ltb_spec max_expr_depth (S d)); [discriminate|].
    pose proof (Dd_step d ltac:(lia)) as Hstep.
    destruct ts as [|[] r]; try discriminate.
    + apply Hf. unfold bound, rank, Wv in *. cbn [length] in *. lia.
    + pure2 (Helref_nf s). discriminate.
    + pure2 (nf_function_of s). destruct r as [|[] r1]; try discriminate.
      use2 Hg Hf u.
      match goal with |- bind (eval_function X ?f ?a ?s) _ <> _ => pure2 (nf_eval_function f a s) end.
      match goal with p : (_ * _)%type |- _ => destruct p end. destruct l as [|[] r2]; discriminate.
    + use2 Hg Hf u. destruct l as [|[] r1]; discriminate.
    + use2 Hg Hf u. pure2 (nf_one_number v). discriminate.
  - (* CLookup *)
    destruct (mem_str v cv); [discriminate|]. destruct (getvar v) eqn:G; [|discriminate].
    destruct (tokenize X s) as [toks|k|m|] eqn:T; cbn [bind]; try discriminate.
    + destruct toks as [|t toks]; [discriminate|].
      pose proof (Hvb _ _ _ G T) as Hl.
      use2 Hg Hf u. destruct l; discriminate.
    + (* the tokenizer uses no fuel *) exfalso. exact (tokenize_no_oof s T).
Qed.

Lemma run_fuel f : forall c cv d ts st, bound c d ts <= f -> run f c cv d ts st <> OutOfFuel.
Proof.
  induction f as [|f IH]; intros c cv d ts st Hb.
  - exfalso. destruct c; unfold bound, rank in Hb; lia.
  - apply body_fuel with (n := f) (Q := deep f) (Pp := deep (pred f)); [apply run_good | exact IH | exact Hb].
Qed.

Lemma fuel_for_bound ts : bound (CExprList false) 0 ts <= fuel_for vbound ts.
Proof.
  unfold bound, rank, fuel_for, Dd, Wv, step. rewrite Nat.sub_0_r.
  apply Nat.add_le_mono; [lia|]. apply Nat.mul_le_mono_l. lia.
Qed.

(* evaluate: a value or an error; never a panic, never out of fuel *)
Lemma evaluate_total ts st : (forall s, evaluate X getvar elref_val vbound ts st <> Panic s) /\
                             evaluate X getvar elref_val vbound ts st <> OutOfFuel.
Proof.
  unfold evaluate.
  pose proof (run_fuel _ (CExprList false) [] 0 ts st (fuel_for_bound ts)) as NF.
  pose proof (run_no_panic (fuel_for vbound ts) (CExprList false) [] 0 ts st) as NP.
  destruct (run _ _ _ _ _ _) as [[[e rest] st1]|k|s0|]; cbn [bind].
  - destruct rest; split; try discriminate; intros; discriminate.
  - split; [intros|]; discriminate.
  - exfalso. exact (NP s0 eq_refl).
  - exfalso. exact (NF eq_refl).
Qed.

(* what evaluate accepts: all tokens consumed, parentheses balanced, every symbol an operator word or a
   known function, every variable defined (and, inside a variable's text, not one being expanded) *)
Lemma evaluate_ok_deep ts st v st1 :
  evaluate X getvar elref_val vbound ts st = Ok (v, st1) -> deep (fuel_for vbound ts) [] ts.
Proof.
  unfold evaluate. intros E.
  pose proof (run_good (fuel_for vbound ts) (CExprList false) [] 0 ts st) as G.
  destruct (run _ _ _ _ _ _) as [[[e rest] st2]|k|s0|]; cbn [bind] in E; try discriminate.
  destruct rest; [|discriminate]. cbn [good] in G. destruct G as (u & Eu & Hwf & _).
  rewrite app_nil_r in Eu. subst u. exact Hwf.
Qed.
Lemma evaluate_ok_wf ts st v st1 :
  evaluate X getvar elref_val vbound ts st = Ok (v, st1) -> wf [] ts.
Proof. intros E. eapply deep_wf. exact (evaluate_ok_deep _ _ _ _ E). Qed.

End ExprP.
