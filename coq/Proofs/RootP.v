(* Root extent (C08): the retry loop of process_tags accumulates the union of the boxes of the tags
   that succeeded, each exactly once; the union does not depend on order or repetition; border
   expansion and outward rounding enclose the extent; write_root_svg meets its specification. *)
From Coq Require Import QArith Qabs Qround Lqa Lia String Ascii List Bool ZArith Arith Permutation.
From SvgdxModel Require Import Base.Str Base.Res Num.NumOps Gen.Tables Model.Types Model.Geom Model.Position
  Model.Scan Model.Element Model.Root Proofs.TypesP Proofs.StrP Proofs.RelPosP Proofs.ContainP.
Import ListNotations.
Local Open Scope list_scope.

(* ================================================================ process_tags *)
Section RetryP.
Context {T C B : Type} (gen : C -> T -> C * outcome B) (combine : B -> B -> B).
Local Notation pass := (pass gen combine).
Local Notation retry_loop := (retry_loop gen combine).
Local Notation extend := (bbb_extend combine).

Lemma log_boxes_app (a b : list (T * option B)) : log_boxes (a ++ b) = log_boxes a ++ log_boxes b.
Proof. unfold log_boxes. apply flat_map_app. Qed.

Lemma extend_opt_fold (acc : option B) (ob : option B) (t : T) :
  bbb_extend_opt combine acc ob = fold_left extend (log_boxes [(t, ob)]) acc.
Proof. destruct ob; reflexivity. Qed.

(* one pass: the log grows by the tags that succeeded, the builder by their boxes in that order,
   the others are kept in document order *)
Lemma pass_spec : forall tags st st',
  pass tags st = inl st' ->
  exists done rem,
    p_log st' = p_log st ++ done /\ p_remain st' = p_remain st ++ rem /\
    p_bbb st' = fold_left extend (log_boxes done) (p_bbb st) /\
    Permutation tags (map fst done ++ rem).
Proof.
  induction tags as [|t r IH]; intros st st' H; cbn in H.
  - inversion H; subst. exists [], []. rewrite !app_nil_r. repeat split; constructor.
  - destruct (gen (p_ctx st) t) as [c o]. destruct o as [ob|k|k|s|]; try discriminate.
    + apply IH in H. destruct H as (done & rem & Hl & Hr & Hb & Hp). cbn in *.
      exists ((t, ob) :: done), rem. repeat split.
      * rewrite Hl, <- app_assoc. reflexivity.
      * exact Hr.
      * rewrite Hb. change ((t, ob) :: done) with ([(t, ob)] ++ done).
        rewrite log_boxes_app, fold_left_app, <- extend_opt_fold. reflexivity.
      * cbn. apply perm_skip. exact Hp.
    + apply IH in H. destruct H as (done & rem & Hl & Hr & Hb & Hp). cbn in *.
      exists done, (t :: rem). repeat split.
      * exact Hl.
      * rewrite Hr, <- app_assoc. reflexivity.
      * exact Hb.
      * apply Permutation_cons_app. exact Hp.
Qed.

(* the whole loop: on success every tag has succeeded exactly once, and the builder holds the
   boxes of the successes folded in the order in which they happened *)
Lemma retry_loop_spec : forall fuel tags c bbb log c' bbb' log',
  retry_loop fuel tags c bbb log = (c', Ok (bbb', log')) ->
  exists done, log' = log ++ done /\ bbb' = fold_left extend (log_boxes done) bbb /\
               Permutation tags (map fst done).
Proof.
  induction fuel as [|f IH]; intros tags c bbb log c' bbb' log' H.
  - destruct tags; cbn in H; [|discriminate].
    inversion H; subst. exists []. rewrite app_nil_r. repeat split. constructor.
  - destruct tags as [|t r].
    + cbn in H. inversion H; subst. exists []. rewrite app_nil_r. repeat split. constructor.
    + cbn [Root.retry_loop] in H.
      destruct (pass (t :: r) _) as [st|[c1 r1]] eqn:P.
      * destruct (Nat.eqb _ _); [discriminate|].
        apply pass_spec in P. destruct P as (d1 & rem & Hl & Hr & Hb & Hp). cbn in Hl, Hr, Hb.
        apply IH in H. destruct H as (d2 & Hl2 & Hb2 & Hp2).
        exists (d1 ++ d2). repeat split.
        -- rewrite Hl2, Hl, app_assoc. reflexivity.
        -- rewrite Hb2, Hb, log_boxes_app, fold_left_app. reflexivity.
        -- rewrite Hp. rewrite map_app. apply Permutation_app_head. rewrite Hr in Hp2. exact Hp2.
      * destruct r1; discriminate.
Qed.

Lemma process_tags_spec tags c c' b log :
  process_tags gen combine tags c = (c', Ok (b, log)) ->
  b = fold_left extend (log_boxes log) None /\ Permutation tags (map fst log).
Proof.
  unfold process_tags. intros H. apply retry_loop_spec in H. destruct H as (done & Hl & Hb & Hp).
  cbn in Hl. subst. auto.
Qed.

(* fuel: the loop's own fuel is never the reason for OutOfFuel *)
Lemma pass_lengths : forall tags st st', pass tags st = inl st' ->
  (List.length (p_remain st') <= List.length (p_remain st) + List.length tags)%nat.
Proof.
  intros tags st st' H. apply pass_spec in H. destruct H as (done & rem & _ & Hr & _ & Hp).
  rewrite Hr, app_length. apply Permutation_length in Hp. rewrite app_length, map_length in Hp. lia.
Qed.
Lemma pass_inr : forall tags st c r, pass tags st = inr (c, r) ->
  (forall c0 t0, snd (gen c0 t0) <> FatalFuel) -> (exists k, r = Err k) \/ (exists s, r = Panic s).
Proof.
  induction tags as [|t tl IH]; intros st c r H NF; cbn in H; [discriminate|].
  pose proof (NF (p_ctx st) t) as NFt.
  destruct (gen (p_ctx st) t) as [c1 o]. cbn in NFt.
  destruct o as [ob|k|k|s|]; try (eapply IH; eassumption).
  - inversion H; subst. left. eauto.
  - inversion H; subst. right. eauto.
  - congruence.
Qed.
Lemma retry_loop_fuel : forall fuel tags c bbb log,
  (forall c0 t0, snd (gen c0 t0) <> FatalFuel) -> (List.length tags < fuel)%nat ->
  snd (retry_loop fuel tags c bbb log) <> OutOfFuel.
Proof.
  induction fuel as [|f IH]; intros tags c bbb log NF L; [lia|].
  destruct tags as [|t r]; [cbn; discriminate|].
  cbn [Root.retry_loop].
  destruct (pass (t :: r) _) as [st|[c1 r1]] eqn:P.
  - destruct (Nat.eqb _ _) eqn:E; [cbn; discriminate|].
    apply IH; [exact NF|].
    apply pass_lengths in P. cbn [p_remain List.length] in P. apply Nat.eqb_neq in E. cbn [List.length] in *. lia.
  - destruct (pass_inr _ _ _ _ P NF) as [[k ->]|[s ->]]; cbn; discriminate.
Qed.
Lemma process_tags_fuel_ok tags c :
  (forall c0 t0, snd (gen c0 t0) <> FatalFuel) -> snd (process_tags gen combine tags c) <> OutOfFuel.
Proof. intros NF. unfold process_tags. apply retry_loop_fuel; [exact NF | lia]. Qed.

(* if every tag succeeds at once (no forward references) the boxes are folded in document order *)
Lemma pass_all_done : forall tags st (f : T -> option B),
  (forall c t, In t tags -> snd (gen c t) = Done (f t)) ->
  exists st', pass tags st = inl st' /\ p_remain st' = p_remain st /\
              p_log st' = p_log st ++ map (fun t => (t, f t)) tags.
Proof.
  induction tags as [|t r IH]; intros st f H; cbn.
  - eexists. split; [reflexivity|]. rewrite app_nil_r. auto.
  - pose proof (H (p_ctx st) t (or_introl eq_refl)) as Ht.
    destruct (gen (p_ctx st) t) as [c o]. cbn in Ht. subst o.
    destruct (IH {| p_ctx := c; p_bbb := bbb_extend_opt combine (p_bbb st) (f t); p_remain := p_remain st;
                    p_log := p_log st ++ [(t, f t)] |} f) as (st' & P & R & L).
    { intros c0 t0 Hin. apply H. now right. }
    exists st'. split; [exact P|]. split; [exact R|]. rewrite L. cbn. rewrite <- app_assoc. reflexivity.
Qed.
Lemma no_retry_document_order tags c (f : T -> option B) :
  (forall c t, In t tags -> snd (gen c t) = Done (f t)) ->
  exists c', process_tags gen combine tags c =
             (c', Ok (fold_left extend (log_boxes (map (fun t => (t, f t)) tags)) None, map (fun t => (t, f t)) tags)).
Proof.
  intros H. unfold process_tags. destruct tags as [|t r]; [cbn; eauto|].
  cbn [Root.retry_loop List.length].
  destruct (pass_all_done (t :: r) {| p_ctx := c; p_bbb := None; p_remain := []; p_log := [] |} f H) as (st' & P & R & L).
  rewrite P. rewrite R. cbn [List.length Nat.eqb Root.retry_loop].
  exists (p_ctx st').
  pose proof (pass_spec _ _ _ P) as (done & rem & Hl & Hr & Hb & _). cbn in Hl, Hr, Hb, L.
  rewrite L in Hl. subst done. rewrite Hb, L. reflexivity.
Qed.
End RetryP.

(* ================================================================ the builder is the union *)
Lemma fold_extend_some (N : NumOps) : forall (l : list (bbox N)) (a : bbox N),
  fold_left (bbb_extend (bb_combine N)) l (Some a) = Some (fold_left (bb_combine N) l a).
Proof. induction l as [|h t IH]; intros a; cbn; [reflexivity | apply IH]. Qed.
Lemma builder_union (N : NumOps) (l : list (bbox N)) :
  fold_left (bbb_extend (bb_combine N)) l None = bb_union N l.
Proof. destruct l as [|h t]; cbn; [reflexivity | apply fold_extend_some]. Qed.

Open Scope Q_scope.
Definition box_eq (a b : QB) : Prop := bx1 a == bx1 b /\ by1 a == by1 b /\ bx2 a == bx2 b /\ by2 a == by2 b.
Definition opt_box_eq (a b : option QB) : Prop :=
  match a, b with Some x, Some y => box_eq x y | None, None => True | _, _ => False end.
Lemma within_antisym a b : within a b -> within b a -> box_eq a b.
Proof. unfold within, box_eq. intros (A1 & A2 & A3 & A4) (B1 & B2 & B3 & B4). repeat split; lra. Qed.

(* same members (any order, any multiplicity) -> same union *)
Lemma union_same_members (l1 l2 : list QB) :
  (forall b, In b l1 <-> In b l2) -> opt_box_eq (bb_union QOps l1) (bb_union QOps l2).
Proof.
  intros H. destruct l1 as [|h1 t1], l2 as [|h2 t2].
  - exact I.
  - destruct (proj2 (H h2) (or_introl eq_refl)).
  - destruct (proj1 (H h1) (or_introl eq_refl)).
  - destruct (union_nonempty (h1 :: t1)) as [u1 U1]; [discriminate|].
    destruct (union_nonempty (h2 :: t2)) as [u2 U2]; [discriminate|].
    rewrite U1, U2. cbn. apply within_antisym.
    + eapply union_least; [exact U1|]. intros b Hb. eapply union_encloses; [exact U2|]. apply H. exact Hb.
    + eapply union_least; [exact U2|]. intros b Hb. eapply union_encloses; [exact U1|]. apply H. exact Hb.
Qed.
Lemma union_permutation (l1 l2 : list QB) : Permutation l1 l2 -> opt_box_eq (bb_union QOps l1) (bb_union QOps l2).
Proof.
  intros P. apply union_same_members. intros b; split; intros Hb;
    [eapply Permutation_in; [exact P | exact Hb] | eapply Permutation_in; [apply Permutation_sym; exact P | exact Hb]].
Qed.
Lemma union_duplicates (l extra : list QB) : incl extra l ->
  opt_box_eq (bb_union QOps (l ++ extra)) (bb_union QOps l).
Proof.
  intros I. apply union_same_members. intros b. rewrite in_app_iff. split; [intros [Hb|Hb]; auto | auto].
Qed.

(* process_tags on boxes: the result is the union of the boxes returned by the successful evaluation
   of each tag (each tag exactly once), and equals the union taken in any other order / with repeats *)
Lemma process_tags_union {T C : Type} (gen : C -> T -> C * outcome QB) tags c c' b log :
  process_tags gen (bb_combine QOps) tags c = (c', Ok (b, log)) ->
  Permutation tags (map fst log) /\ b = bb_union QOps (log_boxes log) /\
  forall l2, (forall x, In x (log_boxes log) <-> In x l2) -> opt_box_eq b (bb_union QOps l2).
Proof.
  intros H. apply process_tags_spec in H. destruct H as [Hb Hp]. rewrite builder_union in Hb.
  split; [exact Hp|]. split; [exact Hb|]. intros l2 Hm. rewrite Hb. apply union_same_members. exact Hm.
Qed.

(* ================================================================ expand and round *)
Lemma expand_within (b : QB) (ex ey : Q) : 0 <= ex -> 0 <= ey -> within b (bb_expand QOps b ex ey).
Proof. unfold within. cbn. intros. repeat split; lra. Qed.
Lemma expand_mono (a b : QB) (ex ey : Q) : within a b -> within (bb_expand QOps a ex ey) (bb_expand QOps b ex ey).
Proof. unfold within. cbn. intros (A1 & A2 & A3 & A4). repeat split; lra. Qed.
Lemma expand_exact (b : QB) (ex ey : Q) :
  let g := bb_expand QOps b ex ey in
  bx1 g == bx1 b - ex /\ by1 g == by1 b - ey /\ bx2 g == bx2 b + ex /\ by2 g == by2 b + ey /\
  bb_width QOps g == bb_width QOps b + 2 * ex /\ bb_height QOps g == bb_height QOps b + 2 * ey.
Proof. cbn. repeat split; ring. Qed.

Lemma floor_le (q : Q) : inject_Z (Qfloor q) <= q. Proof. apply Qfloor_le. Qed.
Lemma floor_gt (q : Q) : q - inject_Z (Qfloor q) < 1.
Proof.
  pose proof (Qlt_floor q) as H. rewrite inject_Z_plus in H. change (inject_Z 1) with 1 in H.
  set (c := inject_Z (Qfloor q)) in *. lra.
Qed.
Lemma ceil_ge (q : Q) : q <= inject_Z (Qceiling q). Proof. apply Qle_ceiling. Qed.
Lemma ceil_lt (q : Q) : inject_Z (Qceiling q) - q < 1.
Proof.
  pose proof (Qceiling_lt q) as H. unfold Z.sub in H. rewrite inject_Z_plus in H.
  change (inject_Z (Z.opp 1)) with (-1 # 1) in H. set (c := inject_Z (Qceiling q)) in *. lra.
Qed.
Definition is_int (q : Q) : Prop := exists z : Z, q = inject_Z z.
Lemma round_outward (b : QB) :
  let r := bb_round QOps b in
  within b r /\
  bx1 b - bx1 r < 1 /\ by1 b - by1 r < 1 /\ bx2 r - bx2 b < 1 /\ by2 r - by2 b < 1 /\
  is_int (bx1 r) /\ is_int (by1 r) /\ is_int (bx2 r) /\ is_int (by2 r).
Proof.
  cbn. unfold within. cbn.
  repeat split; try apply floor_le; try apply ceil_ge; try apply floor_gt; try apply ceil_lt; eexists; reflexivity.
Qed.
Lemma round_mono (a b : QB) : within a b -> within (bb_round QOps a) (bb_round QOps b).
Proof.
  unfold within. cbn. intros (A1 & A2 & A3 & A4).
  repeat split; rewrite <- Zle_Qle; first [apply Qfloor_resp_le | apply Qceiling_resp_le]; assumption.
Qed.
(* the extent written as viewBox encloses the content with at least the border on every side and
   less than border + 1 *)
Lemma root_extent_encloses (E : QB) (border : Q) : 0 <= border ->
  let r := root_extent QOps E border in
  within E r /\
  bx1 r <= bx1 E - border /\ by1 r <= by1 E - border /\ bx2 E + border <= bx2 r /\ by2 E + border <= by2 r /\
  bx1 E - border - bx1 r < 1 /\ by1 E - border - by1 r < 1 /\ bx2 r - (bx2 E + border) < 1 /\ by2 r - (by2 E + border) < 1 /\
  is_int (bx1 r) /\ is_int (by1 r) /\ is_int (bx2 r) /\ is_int (by2 r).
Proof.
  intros Hb r. subst r. unfold root_extent.
  destruct (round_outward (bb_expand QOps E border border)) as (W & L1 & L2 & L3 & L4 & I1 & I2 & I3 & I4).
  pose proof (expand_within E border border Hb Hb) as W0.
  split; [eapply within_trans; eassumption|].
  unfold within in W. cbn in W, L1, L2, L3, L4 |- *. destruct W as (W1 & W2 & W3 & W4).
  repeat split; try assumption; try lra.
Qed.
Lemma root_extent_mono (A B : QB) (border : Q) : within A B -> within (root_extent QOps A border) (root_extent QOps B border).
Proof. intros H. unfold root_extent. apply round_mono, expand_mono, H. Qed.

(* one supplied dimension: the other one keeps the aspect ratio of the extent *)
Lemma derived_dimension (v w h : Q) : 0 < w -> 0 < h ->
  (v / (w / h)) * w == v * h /\ (v * (w / h)) * h == v * w.
Proof. intros Hw Hh. split; field; repeat split; lra. Qed.

(* ================================================================ transforms *)
Definition wellformed (b : QB) : Prop := bx1 b <= bx2 b /\ by1 b <= by2 b.
Definition xfrm_nonneg (t : xfrm QOps) : Prop :=
  match t with XScale _ x y => 0 <= x /\ 0 <= y | _ => True end.
Definition xfrm_pt (t : xfrm QOps) (p : Q * Q) : Q * Q :=
  match t with
  | XTranslate _ x y => (fst p + x, snd p + y)
  | XScale _ x y => (fst p * x, snd p * y)
  | XOther _ => p end.
Definition apply_pt (ts : list (xfrm QOps)) (p : Q * Q) : Q * Q := fold_left (fun acc t => xfrm_pt t acc) (rev ts) p.
Definition in_box (p : Q * Q) (b : QB) : Prop := bx1 b <= fst p <= bx2 b /\ by1 b <= snd p <= by2 b.
Definition xfrm_step (acc : QB) (t : xfrm QOps) : QB :=
  match t with
  | XTranslate _ x y => bb_translated QOps acc x y
  | XScale _ x y => bb_scale0 QOps acc x y
  | XOther _ => acc end.
Lemma xfrm_step_ok (t : xfrm QOps) (b : QB) (p : Q * Q) : xfrm_nonneg t -> wellformed b -> in_box p b ->
  wellformed (xfrm_step b t) /\ in_box (xfrm_pt t p) (xfrm_step b t).
Proof.
  destruct b as [x1 y1 x2 y2], p as [px py]. unfold wellformed, in_box. destruct t as [x y|x y|]; cbn.
  - intros _ [A B] [[C D] [E F]]. repeat split; lra.
  - intros [Hx Hy] [A B] [[C D] [E F]].
    repeat split; apply Qmult_le_compat_r; assumption.
  - tauto.
Qed.
Lemma apply_transform_ok (ts : list (xfrm QOps)) (b : QB) (p : Q * Q) :
  Forall xfrm_nonneg ts -> wellformed b -> in_box p b ->
  wellformed (apply_transform QOps ts b) /\ in_box (apply_pt ts p) (apply_transform QOps ts b).
Proof.
  intros F. apply Forall_rev in F. unfold apply_transform, apply_pt.
  change (fun (acc : bbox QOps) (t : xfrm QOps) =>
            match t with
            | XTranslate _ x y => bb_translated QOps acc x y
            | XScale _ x y => bb_scale0 QOps acc x y
            | XOther _ => acc end) with xfrm_step.
  revert b p. induction F as [|t l Ht _ IH]; intros b p W I; cbn; [auto|].
  destruct (xfrm_step_ok t b p Ht W I) as [W' I']. apply IH; assumption.
Qed.
Close Scope Q_scope.

(* ================================================================ write_root_svg *)
Local Open Scope string_scope.
Definition oset (a : attrs) (k : string) (ov : option string) : attrs :=
  match ov with Some v => set a k v | None => a end.
Lemma nodup_oset a k ov : NoDup (keys a) -> NoDup (keys (oset a k ov)).
Proof. destruct ov; cbn; [apply nodup_set | auto]. Qed.
Lemma get_oset a k ov k2 : NoDup (keys a) ->
  get (oset a k ov) k2 = if String.eqb k2 k then (match ov with Some v => Some v | None => get a k2 end) else get a k2.
Proof.
  intros ND. destruct ov as [v|]; cbn; [|destruct (String.eqb k2 k); reflexivity].
  destruct (String.eqb k2 k) eqn:E.
  - apply String.eqb_eq in E. subst. apply get_set_same. exact ND.
  - apply String.eqb_neq in E. apply get_set_other; assumption.
Qed.
Lemma has_get a k : has a k = match get a k with Some _ => true | None => false end.
Proof. reflexivity. Qed.

(* the default attributes, for any table with distinct keys *)
Definition add_tbl (tbl : list (string * string)) (orig a : attrs) : attrs :=
  fold_left (fun acc kv => if has orig (fst kv) then acc else set acc (fst kv) (snd kv)) tbl a.
Lemma add_tbl_spec : forall tbl orig a, NoDup (map fst tbl) -> NoDup (keys a) ->
  (forall k, In k (map fst tbl) -> get a k = get orig k) ->
  NoDup (keys (add_tbl tbl orig a)) /\
  (forall k d, In (k, d) tbl -> get (add_tbl tbl orig a) k = Some (match get orig k with Some v => v | None => d end)) /\
  (forall k, ~ In k (map fst tbl) -> get (add_tbl tbl orig a) k = get a k).
Proof.
  induction tbl as [|[k0 d0] t IH]; intros orig a NDt NDa Hag; cbn.
  - split; [exact NDa|]. split; [tauto | auto].
  - inversion NDt as [|? ? Hnot NDt']; subst. cbn [fst snd].
    set (a1 := if has orig k0 then a else set a k0 d0).
    assert (ND1 : NoDup (keys a1)) by (subst a1; destruct (has orig k0); [exact NDa | apply nodup_set; exact NDa]).
    assert (Hag1 : forall k, In k (map fst t) -> get a1 k = get orig k).
    { intros k Hk. assert (k <> k0) by (intros ->; contradiction).
      subst a1. destruct (has orig k0); [|rewrite get_set_other by assumption]; apply Hag; right; exact Hk. }
    destruct (IH orig a1 NDt' ND1 Hag1) as (R1 & R2 & R3).
    split; [exact R1|]. split.
    + intros k d [E|Hin].
      * inversion E; subst k d. rewrite R3 by exact Hnot. subst a1. rewrite has_get.
        destruct (get orig k0) as [v|] eqn:G.
        -- rewrite Hag by (left; reflexivity). exact G.
        -- apply get_set_same. exact NDa.
      * apply R2. exact Hin.
    + intros k Hk. rewrite R3 by (intros Hc; apply Hk; right; exact Hc).
      assert (k <> k0) by (intros ->; apply Hk; left; reflexivity).
      subst a1. destruct (has orig k0); [reflexivity | apply get_set_other; assumption].
Qed.

Definition root_keys : list string := ["version"; "xmlns"; "id"; "style"; "width"; "height"; "viewBox"].
Definition other_root_keys : list string := ["id"; "style"; "width"; "height"; "viewBox"].
(* facts about the generated tables the specification relies on *)
Lemma root_tables_ok :
  root_default_attrs = [("version", "1.1"); ("xmlns", "http://www.w3.org/2000/svg")] /\
  root_default_unit = "mm" /\ root_viewbox_seps = [""; " "; " "; " "; ""] /\
  (forall k, In k root_inserted_keys <-> In k root_keys) /\
  container_no_bbox = ["defs"; "symbol"] /\ leaf_no_bbox = ["point"] /\ group_no_bbox = ["symbol"] /\
  dispatch "g" = Some "GroupElement" /\ dispatch "symbol" = Some "GroupElement" /\ dispatch "specs" = Some "SpecsElement".
Proof.
  repeat split; try reflexivity; intros H;
    repeat (destruct H as [<-|H]; [cbn; tauto|]); destruct H.
Qed.
Lemma default_keys_nodup : NoDup (map fst root_default_attrs).
Proof. repeat constructor; cbn; intuition discriminate. Qed.
Lemma default_keys_disjoint k : In k (map fst root_default_attrs) -> ~ In k other_root_keys.
Proof.
  assert (H : forallb (fun k => negb (mem_str k other_root_keys)) (map fst root_default_attrs) = true) by (vm_compute; reflexivity).
  rewrite forallb_forall in H. intros Hk Hc. apply H in Hk. apply mem_str_In in Hc. rewrite Hc in Hk. discriminate.
Qed.

Section RootSpec.
Context (N : NumOps) (strp : string -> option (num N)) (fstr : num N -> string).
Local Notation bbox := (bbox N).
Local Notation split_unit := (split_unit N strp).
Local Notation root_attrs := (root_attrs N strp fstr).

Lemma split_unit_cases s : (exists v u, split_unit s = Ok (v, u)) \/ split_unit s = Err EParse.
Proof.
  unfold Root.split_unit. destruct (exists_char _ _); [right; reflexivity|].
  destruct (take_while _ _); [right; reflexivity|]. destruct (strp _); [left; eauto | right; reflexivity].
Qed.

(* what the written attribute list must look like *)
Definition root_spec (orig : attrs) (ext : option bbox) (border scale : num N)
           (local_id svg_style : option string) (a : attrs) : Prop :=
  NoDup (keys a) /\
  (forall k d, In (k, d) root_default_attrs -> get a k = Some (match get orig k with Some v => v | None => d end)) /\
  get a "id" = (match get orig "id" with Some v => Some v | None => local_id end) /\
  get a "style" = (match svg_style with Some s => Some s | None => get orig "style" end) /\
  (forall k, ~ In k root_keys -> get a k = get orig k) /\
  match ext with
  | None => get a "width" = get orig "width" /\ get a "height" = get orig "height" /\ get a "viewBox" = get orig "viewBox"
  | Some e =>
      let b := root_extent N e border in
      let w := bb_width N b in let h := bb_height N b in
      get a "viewBox" = Some (match get orig "viewBox" with Some v => v | None => viewbox_str N fstr b end) /\
      match get orig "width", get orig "height" with
      | None, None => get a "width" = Some (fstr (nmul N w scale) ++ root_default_unit) /\
                      get a "height" = Some (fstr (nmul N h scale) ++ root_default_unit)
      | Some ow, None => get a "width" = Some ow /\
                         exists v u, split_unit ow = Ok (v, u) /\ get a "height" = Some (fstr (ndiv N v (ndiv N w h)) ++ u)
      | None, Some oh => get a "height" = Some oh /\
                         exists v u, split_unit oh = Ok (v, u) /\ get a "width" = Some (fstr (nmul N v (ndiv N w h)) ++ u)
      | Some ow, Some oh => get a "width" = Some ow /\ get a "height" = Some oh
      end
  end.

Ltac eqbs := repeat match goal with
  | |- context [String.eqb ?a ?b] =>
      let r := eval vm_compute in (String.eqb a b) in
      match r with true => idtac | false => idtac end; change (String.eqb a b) with r
  end; cbv iota.

Lemma root_attrs_form orig ext border scale lid sty a :
  root_attrs orig ext border scale lid sty = Ok a ->
  exists ow oh ovb,
    a = oset (oset (oset (oset (oset (add_tbl root_default_attrs orig orig) "id" (if has orig "id" then None else lid))
                               "style" sty) "width" ow) "height" oh) "viewBox" ovb /\
    match ext with
    | None => ow = None /\ oh = None /\ ovb = None
    | Some e =>
        let b := root_extent N e border in
        let w := bb_width N b in let h := bb_height N b in
        ovb = (if has orig "viewBox" then None else Some (viewbox_str N fstr b)) /\
        match get orig "width", get orig "height" with
        | None, None => ow = Some (fstr (nmul N w scale) ++ root_default_unit) /\
                        oh = Some (fstr (nmul N h scale) ++ root_default_unit)
        | Some s, None => ow = None /\ exists v u, split_unit s = Ok (v, u) /\ oh = Some (fstr (ndiv N v (ndiv N w h)) ++ u)
        | None, Some s => oh = None /\ exists v u, split_unit s = Ok (v, u) /\ ow = Some (fstr (nmul N v (ndiv N w h)) ++ u)
        | Some _, Some _ => ow = None /\ oh = None
        end
    end.
Proof.
  unfold Root.root_attrs. change (add_defaults orig orig) with (add_tbl root_default_attrs orig orig).
  set (a0 := add_tbl root_default_attrs orig orig).
  assert (E1 : (if has orig "id" then a0 else match lid with Some l => set a0 "id" l | None => a0 end)
               = oset a0 "id" (if has orig "id" then None else lid)) by (destruct (has orig "id"), lid; reflexivity).
  rewrite E1. set (a1 := oset a0 "id" _).
  change (match sty with Some s => set a1 "style" s | None => a1 end) with (oset a1 "style" sty).
  set (a2 := oset a1 "style" sty).
  destruct ext as [e|].
  - cbv zeta. destruct (get orig "width") as [sw|] eqn:GW, (get orig "height") as [sh|] eqn:GH; cbn [bind].
    + intros H. inversion H; subst a. exists None, None, (if has orig "viewBox" then None else Some (viewbox_str N fstr (root_extent N e border))).
      split; [destruct (has orig "viewBox"); reflexivity | auto].
    + destruct (split_unit sw) as [[v u]| | |] eqn:SU; cbn [bind]; try discriminate.
      intros H. inversion H; subst a.
      exists None, (Some (fstr (ndiv N v (ndiv N (bb_width N (root_extent N e border)) (bb_height N (root_extent N e border)))) ++ u)),
             (if has orig "viewBox" then None else Some (viewbox_str N fstr (root_extent N e border))).
      split; [destruct (has orig "viewBox"); reflexivity|]. split; [reflexivity|]. split; [reflexivity|]. eauto.
    + destruct (split_unit sh) as [[v u]| | |] eqn:SU; cbn [bind]; try discriminate.
      intros H. inversion H; subst a.
      exists (Some (fstr (nmul N v (ndiv N (bb_width N (root_extent N e border)) (bb_height N (root_extent N e border)))) ++ u)), None,
             (if has orig "viewBox" then None else Some (viewbox_str N fstr (root_extent N e border))).
      split; [destruct (has orig "viewBox"); reflexivity|]. split; [reflexivity|]. split; [reflexivity|]. eauto.
    + intros H. inversion H; subst a.
      exists (Some (fstr (nmul N (bb_width N (root_extent N e border)) scale) ++ root_default_unit)),
             (Some (fstr (nmul N (bb_height N (root_extent N e border)) scale) ++ root_default_unit)),
             (if has orig "viewBox" then None else Some (viewbox_str N fstr (root_extent N e border))).
      split; [destruct (has orig "viewBox"); reflexivity | auto].
  - intros H. inversion H; subst a. exists None, None, None. auto.
Qed.

Ltac dvb := match goal with |- context [if has ?o "viewBox" then None else ?x] => destruct (if has o "viewBox" then None else x) end.
Ltac getn ND0 := repeat (rewrite get_oset by (repeat apply nodup_oset; exact ND0)).

Theorem root_attrs_meets_spec orig ext border scale lid sty a :
  NoDup (keys orig) -> root_attrs orig ext border scale lid sty = Ok a ->
  root_spec orig ext border scale lid sty a.
Proof.
  intros ND H. apply root_attrs_form in H. destruct H as (ow & oh & ovb & -> & Hc).
  destruct (add_tbl_spec root_default_attrs orig orig default_keys_nodup ND (fun k _ => eq_refl)) as (ND0 & D1 & D2).
  set (a0 := add_tbl root_default_attrs orig orig) in *.
  assert (D3 : forall k, In k other_root_keys -> get a0 k = get orig k).
  { intros k Hk. apply D2. intros Hc'. exact (default_keys_disjoint k Hc' Hk). }
  pose proof (D3 "id" ltac:(cbn; tauto)) as Gid. pose proof (D3 "style" ltac:(cbn; tauto)) as Gst.
  pose proof (D3 "width" ltac:(cbn; tauto)) as Gw. pose proof (D3 "height" ltac:(cbn; tauto)) as Gh.
  pose proof (D3 "viewBox" ltac:(cbn; tauto)) as Gv.
  unfold root_spec. split; [repeat apply nodup_oset; exact ND0|].
  split.
  { (* defaults *)
    intros k d Hin. pose proof (default_keys_disjoint k (in_map fst _ _ Hin)) as Hd.
    getn ND0.
    assert (N1 : String.eqb k "viewBox" = false) by (apply String.eqb_neq; intros ->; apply Hd; cbn; tauto).
    assert (N2 : String.eqb k "height" = false) by (apply String.eqb_neq; intros ->; apply Hd; cbn; tauto).
    assert (N3 : String.eqb k "width" = false) by (apply String.eqb_neq; intros ->; apply Hd; cbn; tauto).
    assert (N4 : String.eqb k "style" = false) by (apply String.eqb_neq; intros ->; apply Hd; cbn; tauto).
    assert (N5 : String.eqb k "id" = false) by (apply String.eqb_neq; intros ->; apply Hd; cbn; tauto).
    rewrite N1, N2, N3, N4, N5. apply D1. exact Hin. }
  split.
  { getn ND0. eqbs. rewrite Gid, has_get. destruct (get orig "id"); [reflexivity|]. destruct lid; reflexivity. }
  split.
  { getn ND0. eqbs. destruct sty; [reflexivity|]. exact Gst. }
  split.
  { intros k Hk. getn ND0.
    assert (N1 : String.eqb k "viewBox" = false) by (apply String.eqb_neq; intros ->; apply Hk; cbn; tauto).
    assert (N2 : String.eqb k "height" = false) by (apply String.eqb_neq; intros ->; apply Hk; cbn; tauto).
    assert (N3 : String.eqb k "width" = false) by (apply String.eqb_neq; intros ->; apply Hk; cbn; tauto).
    assert (N4 : String.eqb k "style" = false) by (apply String.eqb_neq; intros ->; apply Hk; cbn; tauto).
    assert (N5 : String.eqb k "id" = false) by (apply String.eqb_neq; intros ->; apply Hk; cbn; tauto).
    rewrite N1, N2, N3, N4, N5. apply D2. intros Hc'.
    apply Hk. destruct root_tables_ok as (T1 & _). rewrite T1 in Hc'. cbn in Hc' |- *. tauto. }
  destruct ext as [e|].
  - cbv zeta in Hc |- *. destruct Hc as (-> & Hc). split.
    { getn ND0. eqbs. rewrite has_get. destruct (get orig "viewBox"); [|reflexivity]. 
      destruct oh, ow, sty; exact Gv. }
    destruct (get orig "width") as [sw|] eqn:GW, (get orig "height") as [sh|] eqn:GH.
    + destruct Hc as (-> & ->). split; getn ND0; eqbs; try dvb; assumption.
    + destruct Hc as (-> & v & u & SU & ->). split.
      * getn ND0; eqbs. try dvb; exact Gw.
      * exists v, u. split; [exact SU|]. getn ND0; eqbs. try dvb; reflexivity.
    + destruct Hc as (-> & v & u & SU & ->). split.
      * getn ND0; eqbs. try dvb; exact Gh.
      * exists v, u. split; [exact SU|]. getn ND0; eqbs. try dvb; reflexivity.
    + destruct Hc as (-> & ->). split; getn ND0; eqbs; try dvb; reflexivity.
  - destruct Hc as (-> & -> & ->). repeat split; getn ND0; eqbs; assumption.
Qed.

(* the only way to fail: exactly one of width / height supplied and not of the form number+unit *)
Theorem root_attrs_outcome orig ext border scale lid sty :
  (exists a, root_attrs orig ext border scale lid sty = Ok a) \/
  (root_attrs orig ext border scale lid sty = Err EParse /\ ext <> None /\
   exists s, ((get orig "width" = Some s /\ get orig "height" = None) \/ (get orig "width" = None /\ get orig "height" = Some s)) /\
             split_unit s = Err EParse).
Proof.
  unfold Root.root_attrs. destruct ext as [e|]; [|left; eauto]. cbv zeta.
  destruct (get orig "width") as [sw|] eqn:GW, (get orig "height") as [sh|] eqn:GH; cbn [bind]; try (left; eauto; fail).
  - destruct (split_unit_cases sw) as [(v & u & ->)| E]; cbn [bind]; [left; eauto|].
    right. rewrite E. cbn [bind]. split; [reflexivity|]. split; [discriminate|]. exists sw. auto.
  - destruct (split_unit_cases sh) as [(v & u & ->)| E]; cbn [bind]; [left; eauto|].
    right. rewrite E. cbn [bind]. split; [reflexivity|]. split; [discriminate|]. exists sh. auto.
Qed.

Lemma viewbox_text (b : bbox) :
  viewbox_str N fstr b = fstr (bx1 b) ++ " " ++ fstr (by1 b) ++ " " ++ fstr (bb_width N b) ++ " " ++ fstr (bb_height N b).
Proof.
  unfold viewbox_str. destruct root_tables_ok as (_ & _ & -> & _). cbn.
  rewrite app_nil_r_str. reflexivity.
Qed.
End RootSpec.

(* ================================================================ document structure *)
Section DocP.
Context (N : NumOps) (strp : string -> option (num N)) (fstr : num N -> string) (fdisplay : num N -> string).
Local Notation gen_node := (gen_node N strp fstr fdisplay).
Local Notation bbox := (bbox N).
Local Notation emap := (emap N).

Lemma clip_step_none orig (c : emap) (r : res (option bbox)) :
  (forall b, r <> Ok (Some b)) -> clip_step N strp orig (c, r) = (c, r).
Proof. intros H. unfold clip_step. destruct r as [[b|]| | |]; try reflexivity. exfalso. eapply H. reflexivity. Qed.
Lemma clip_step_no_clip orig (p : emap * res (option bbox)) :
  eget N orig "clip-path" = None -> clip_step N strp orig p = p.
Proof. intros H. destruct p as [c r]. unfold clip_step. rewrite H. destruct r as [[b|]| | |]; reflexivity. Qed.
Lemma lift_ok {A} (c : emap) (r : res A) k c' (b : option bbox) :
  lift N c r k = (c', Ok b) -> exists a, r = Ok a /\ k a = (c', Ok b).
Proof. destruct r; cbn; intros H; try discriminate. eauto. Qed.
Lemma clip_step_ok_none orig (p : emap * res (option bbox)) c' b :
  clip_step N strp orig p = (c', Ok b) -> (forall x, snd p = Ok x -> x = None) -> b = None.
Proof.
  destruct p as [c r]. cbn [snd]. intros H Hr. rewrite clip_step_none in H.
  - inversion H; subst. apply Hr. reflexivity.
  - intros x E. specialize (Hr _ E). discriminate.
Qed.
Lemma container_finish_none e c1 b0 :
  mem_str (ename N e) container_no_bbox = true \/ mem_str (ename N e) container_unrendered = true ->
  snd (container_finish N e c1 b0) = Ok None.
Proof.
  unfold container_finish. intros [H|H]; rewrite H.
  - cbv beta iota zeta. cbn [snd]. destruct (mem_str _ container_unrendered); reflexivity.
  - destruct (if mem_str _ _ then _ else _) as [c2 b1]. reflexivity.
Qed.
Lemma group_finish_none e c1 cb : mem_str (ename N e) group_no_bbox = true -> snd (group_finish N strp e c1 cb) = Ok None.
Proof. unfold group_finish. intros ->. reflexivity. Qed.
Lemma lift_snd_none {A} (c : emap) (r : res A) k :
  (forall a, forall x, snd (k a) = Ok x -> x = None) -> forall x, snd (lift N c r k) = Ok x -> x = None.
Proof. intros H x. destruct r; cbn; try discriminate. apply H. Qed.

(* elements that add nothing to the extent of their parent: symbol; specs; point; the content of
   defs (and of clipPath / marker / mask / pattern once their content is not rendered in place) *)
Definition adds_nothing (e : el N) : Prop :=
  ename N e = "symbol" \/ ename N e = "specs" \/
  (eempty N e = true /\ ename N e = "point") \/
  (eempty N e = false /\ (ename N e = "defs" \/ In (ename N e) container_unrendered)).

Lemma unrendered_not_dispatched name : In name container_unrendered ->
  dispatch name = None /\ mem_str name graphics_elements = false.
Proof.
  assert (H : forallb (fun n => match dispatch n with None => negb (mem_str n graphics_elements) | Some _ => false end)
                      container_unrendered = true) by (vm_compute; reflexivity).
  rewrite forallb_forall in H. intros Hin. apply H in Hin. destruct (dispatch name); [discriminate|].
  split; [reflexivity|]. destruct (mem_str name graphics_elements); [discriminate | reflexivity].
Qed.

Lemma adds_nothing_ok : forall f in_specs c e kids c' b,
  adds_nothing e -> gen_node (S f) in_specs c (Node e kids) = (c', Ok b) -> b = None.
Proof.
  intros f in_specs c e kids c' b A H. cbn [Root.gen_node] in H.
  eapply clip_step_ok_none; [exact H|]. clear H.
  destruct A as [A|[A|[[E A]|[E A]]]].
  - rewrite A. change (dispatch "symbol") with (Some "GroupElement"). cbv iota.
    change ("GroupElement" =? "GroupElement")%string with true. cbv iota.
    destruct (if eempty N e then _ else _) as [c1 r].
    apply lift_snd_none. intros cb x. rewrite group_finish_none; [congruence|]. rewrite A. reflexivity.
  - rewrite A. change (dispatch "specs") with (Some "SpecsElement"). cbv iota.
    change ("SpecsElement" =? "GroupElement")%string with false.
    change ("SpecsElement" =? "SpecsElement")%string with true. cbv iota.
    destruct in_specs; [cbn; discriminate|].
    cbv iota. apply lift_snd_none. intros _ x. cbn. congruence.
  - rewrite A, E. change (dispatch "point") with (@None string). cbv iota.
    unfold gen_other. intros x.
    match goal with |- context [lift N c ?r _] => destruct r as [e3| | |]; cbn [lift snd]; try discriminate end.
    match goal with |- context [lift N ?c2 ?r _] => destruct r as [bb| | |]; cbn [lift snd]; try discriminate end.
    rewrite A. change (mem_str "point" leaf_no_bbox) with true. cbv iota. congruence.
  - rewrite E.
    assert (D : dispatch (ename N e) = None /\ mem_str (ename N e) graphics_elements = false /\
                (mem_str (ename N e) container_no_bbox = true \/ mem_str (ename N e) container_unrendered = true)).
    { destruct A as [A|A].
      - rewrite A. repeat split; try reflexivity. left. reflexivity.
      - destruct (unrendered_not_dispatched _ A) as [D1 D2]. repeat split; try assumption. right. apply mem_str_In. exact A. }
    destruct D as (D1 & D2 & D3). rewrite D1, D2. cbv iota.
    destruct kids as [|k0 kr].
    + destruct (etext N e); [cbn; congruence|].
      destruct ((ename N e =? "svg")%string && ehas N e "xmlns")%bool; [cbn; congruence|].
      match goal with |- context [let '(c1, r) := ?X in _] => destruct X as [c1 r] end.
      apply lift_snd_none. intros b0 x. rewrite container_finish_none by exact D3. congruence.
    + destruct ((ename N e =? "svg")%string && ehas N e "xmlns")%bool; [cbn; congruence|].
      match goal with |- context [let '(c1, r) := ?X in _] => destruct X as [c1 r] end.
      apply lift_snd_none. intros b0 x. rewrite container_finish_none by exact D3. congruence.
Qed.

(* a group: its extent is its content box (the union accumulated by process_tags over its children)
   pushed through its transform attribute (el_bbox), then the clip-path step *)
Lemma group_extent : forall f c e kids c' b,
  ename N e = "g" -> eempty N e = false -> eget N e "clip-path" = None ->
  gen_node (S f) false c (Node e kids) = (c', Ok b) ->
  exists c1 cb log,
    process_tags (fun c k => let '(c', r) := gen_node f false (update_element N c (node_el N k)) k in (c', to_outcome N r))
                 (bb_combine N) kids c = (c1, Ok (cb, log)) /\
    el_bbox N strp (with_cbb N e cb) = Ok b.
Proof.
  intros f c e kids c' b A E CP H. cbn [Root.gen_node] in H.
  rewrite A, E in H. change (dispatch "g") with (Some "GroupElement") in H. cbv iota in H.
  change ("GroupElement" =? "GroupElement")%string with true in H. cbv iota in H.
  destruct (process_tags _ _ kids c) as [c1 r] eqn:P.
  rewrite clip_step_no_clip in H by exact CP.
  apply lift_ok in H. destruct H as (cb & Er & L).
  destruct r as [[cb0 log]| | |]; try discriminate. inversion Er; subst cb0.
  exists c1, cb, log. split; [reflexivity|].
  unfold group_finish in L. rewrite A in L. change (mem_str "g" group_no_bbox) with false in L. cbv iota in L.
  apply lift_ok in L. destruct L as (b' & Eb & L). inversion L; subst. exact Eb.
Qed.
End DocP.

(* ================================================================ documents on exact rationals *)
Section DocQ.
Context (strp : string -> option Q) (fstr fdisplay : Q -> string).
Local Notation gen_node := (gen_node QOps strp fstr fdisplay).

Lemma group_extent_q : forall f c e kids c' b,
  ename QOps e = "g"%string -> eempty QOps e = false -> eget QOps e "clip-path" = None ->
  gen_node (S f) false c (Node e kids) = (c', Ok b) ->
  exists cb log,
    Permutation kids (map fst log) /\ cb = bb_union QOps (log_boxes log) /\
    el_bbox QOps strp (with_cbb QOps e cb) = Ok b.
Proof.
  intros f c e kids c' b A E CP H.
  destruct (group_extent QOps strp fstr fdisplay f c e kids c' b A E CP H) as (c1 & cb & log & P & B).
  apply process_tags_union in P. destruct P as (P1 & P2 & _). exists cb, log. auto.
Qed.

(* the root written for a document is the specification applied to the accumulated extent *)
Lemma document_root doc border scale lid sty ext a :
  doc_root QOps strp fstr fdisplay doc border scale lid sty = Ok (ext, Some a) ->
  exists e, first_svg QOps doc = Some e /\ is_real_svg QOps doc = false /\
            doc_extent QOps strp fstr fdisplay doc = Ok ext /\
            (NoDup (keys (eattrs QOps e)) -> root_spec QOps strp fstr (eattrs QOps e) ext border scale lid sty a).
Proof.
  unfold doc_root. destruct (doc_extent _ _ _ _ doc) as [x| | |] eqn:DE; cbn [bind]; try discriminate.
  destruct (is_real_svg QOps doc) eqn:R; [discriminate|].
  destruct (first_svg QOps doc) as [e|] eqn:F; [|discriminate].
  destruct (root_attrs _ _ _ _ _ _ _ _ _) as [a0| | |] eqn:RA; cbn [bind]; try discriminate.
  intros H. inversion H; subst. exists e. split; [reflexivity|]. split; [reflexivity|]. split; [reflexivity|].
  intros ND. eapply root_attrs_meets_spec; eassumption.
Qed.
End DocQ.

(* a concrete retry: the first tag needs the second one (forward reference) *)
Definition demo_tag := (nat * option nat * QB)%type.
Definition demo_gen (c : list nat) (t : demo_tag) : list nat * outcome QB :=
  let '(id, dep, b) := t in
  match dep with
  | Some d => if existsb (Nat.eqb d) c then (id :: c, Done (Some b)) else (c, Failed EReference)
  | None => (id :: c, Done (Some b)) end.

(* ================================================================ the structural extent (specification side of
   the full statement in Props/C08.v; nothing is proved about it) *)
Section SpecExtent.
Context (strp : string -> option Q) (fstr fdisplay : Q -> string).
Definition adds_nothing_b (e : el QOps) : bool :=
  (String.eqb (ename QOps e) "symbol" || String.eqb (ename QOps e) "specs"
   || (eempty QOps e && String.eqb (ename QOps e) "point")
   || (negb (eempty QOps e) && (String.eqb (ename QOps e) "defs" || mem_str (ename QOps e) container_unrendered)))%bool.
Definition opt_list {A} (o : option A) : list A := match o with Some a => [a] | None => [] end.
Definition ok_box (r : res (option QB)) : option QB := match r with Ok b => b | _ => None end.
(* leaves by their attributes (el_bbox: bbox_raw + transform), g = union of the children pushed through
   its transform, other containers = union of the children, unrendered elements = nothing *)
Fixpoint spec_extent (n : node QOps) : option QB :=
  match n with
  | Node e kids =>
      if adds_nothing_b e then None
      else if eempty QOps e then ok_box (el_bbox QOps strp e)
      else let u := bb_union QOps (flat_map (fun k => opt_list (spec_extent k)) kids) in
           if String.eqb (ename QOps e) "g" then ok_box (el_bbox QOps strp (with_cbb QOps e u)) else u
  end.
End SpecExtent.

(* ================================================================ the structural extent of plain trees *)
(* ---- every log entry comes from a Done outcome ---- *)
Section Origin.
Context {T C B : Type} (gen : C -> T -> C * outcome B) (combine : B -> B -> B).
Definition from_done (tb : T * option B) : Prop := exists c, snd (gen c (fst tb)) = Done (snd tb).
Lemma pass_origin : forall tags st st', pass gen combine tags st = inl st' ->
  Forall from_done (p_log st) -> Forall from_done (p_log st').
Proof.
  induction tags as [|t r IH]; intros st st' H F; cbn in H.
  - inversion H; subst. exact F.
  - destruct (gen (p_ctx st) t) as [c o] eqn:G. destruct o as [ob|k|k|s|]; try discriminate.
    + apply IH in H; [exact H|]. cbn. apply Forall_app. split; [exact F|].
      constructor; [|constructor]. exists (p_ctx st). cbn. rewrite G. reflexivity.
    + apply IH in H; [exact H | exact F].
Qed.
Lemma retry_origin : forall fuel tags c bbb log c' bbb' log',
  retry_loop gen combine fuel tags c bbb log = (c', Ok (bbb', log')) ->
  Forall from_done log -> Forall from_done log'.
Proof.
  induction fuel as [|f IH]; intros tags c bbb log c' bbb' log' H F.
  - destruct tags; cbn in H; [|discriminate]. inversion H; subst. exact F.
  - destruct tags as [|t r]; [cbn in H; inversion H; subst; exact F|].
    cbn [Root.retry_loop] in H.
    destruct (pass gen combine (t :: r) _) as [st|[c1 r1]] eqn:P.
    + destruct (Nat.eqb _ _); [discriminate|]. apply pass_origin in P; [|exact F]. eapply IH; eassumption.
    + destruct r1; discriminate.
Qed.
Lemma process_tags_origin tags c c' b log :
  process_tags gen combine tags c = (c', Ok (b, log)) -> Forall from_done log.
Proof. unfold process_tags. intros H. eapply retry_origin; [exact H | constructor]. Qed.
End Origin.

Open Scope Q_scope.
(* ---- boxes up to == ---- *)
Lemma box_eq_refl a : box_eq a a. Proof. unfold box_eq. repeat split; reflexivity. Qed.
Lemma box_eq_sym a b : box_eq a b -> box_eq b a.
Proof. unfold box_eq. intros (A & B & C & D). repeat split; symmetry; assumption. Qed.
Lemma box_eq_trans a b c : box_eq a b -> box_eq b c -> box_eq a c.
Proof. unfold box_eq. intros (A & B & C & D) (E & F & G & H). repeat split; etransitivity; eassumption. Qed.
Lemma opt_box_eq_refl o : opt_box_eq o o. Proof. destruct o; cbn; [apply box_eq_refl | exact I]. Qed.
Lemma opt_box_eq_sym a b : opt_box_eq a b -> opt_box_eq b a.
Proof. destruct a, b; cbn; auto using box_eq_sym. Qed.
Lemma opt_box_eq_trans a b c : opt_box_eq a b -> opt_box_eq b c -> opt_box_eq a c.
Proof. destruct a, b, c; cbn; try tauto. apply box_eq_trans. Qed.
Lemma within_eq_l a a' b : box_eq a a' -> within a b -> within a' b.
Proof. unfold box_eq, within. intros (A & B & C & D) (E & F & G & H). repeat split; lra. Qed.
Lemma within_eq_r a b b' : box_eq b b' -> within a b -> within a b'.
Proof. unfold box_eq, within. intros (A & B & C & D) (E & F & G & H). repeat split; lra. Qed.

Definition same_boxes (l1 l2 : list QB) : Prop :=
  (forall a, In a l1 -> exists b, In b l2 /\ box_eq a b) /\ (forall b, In b l2 -> exists a, In a l1 /\ box_eq a b).
Lemma union_same_boxes l1 l2 : same_boxes l1 l2 -> opt_box_eq (bb_union QOps l1) (bb_union QOps l2).
Proof.
  intros [H1 H2]. destruct l1 as [|h1 t1], l2 as [|h2 t2].
  - exact I.
  - destruct (H2 h2 (or_introl eq_refl)) as (a & [] & _).
  - destruct (H1 h1 (or_introl eq_refl)) as (b & [] & _).
  - destruct (union_nonempty (h1 :: t1)) as [u1 U1]; [discriminate|].
    destruct (union_nonempty (h2 :: t2)) as [u2 U2]; [discriminate|].
    rewrite U1, U2. cbn. apply within_antisym.
    + eapply union_least; [exact U1|]. intros a Ha. destruct (H1 a Ha) as (b & Hb & E).
      eapply within_eq_l; [apply box_eq_sym; exact E|]. eapply union_encloses; eassumption.
    + eapply union_least; [exact U2|]. intros b Hb. destruct (H2 b Hb) as (a & Ha & E).
      eapply within_eq_l; [exact E|]. eapply union_encloses; eassumption.
Qed.

(* ---- transforms respect == ---- *)
Lemma xfrm_step_eq t a b : box_eq a b -> box_eq (xfrm_step a t) (xfrm_step b t).
Proof.
  destruct a as [a1 a2 a3 a4], b as [b1 b2 b3 b4]. unfold box_eq. cbn. intros (A & B & C & D).
  destruct t as [x y|x y|]; cbn; repeat split; try assumption; try (rewrite A || rewrite B || rewrite C || rewrite D); reflexivity.
Qed.
Lemma fold_xfrm_eq : forall l a b, box_eq a b -> box_eq (fold_left xfrm_step l a) (fold_left xfrm_step l b).
Proof. induction l as [|t l IH]; intros a b E; cbn; [exact E|]. apply IH, xfrm_step_eq, E. Qed.
Lemma apply_transform_eq ts a b : box_eq a b -> box_eq (apply_transform QOps ts a) (apply_transform QOps ts b).
Proof.
  unfold apply_transform.
  change (fun (acc : bbox QOps) (t : xfrm QOps) =>
            match t with
            | XTranslate _ x y => bb_translated QOps acc x y
            | XScale _ x y => bb_scale0 QOps acc x y
            | XOther _ => acc end) with xfrm_step.
  apply fold_xfrm_eq.
Qed.

Definition res_box_eq (r1 r2 : res (option QB)) : Prop :=
  match r1, r2 with
  | Ok o1, Ok o2 => opt_box_eq o1 o2
  | Err a, Err b => a = b
  | Panic a, Panic b => a = b
  | OutOfFuel, OutOfFuel => True
  | _, _ => False end.
Section Push.
Context (strp : string -> option Q).
Lemma el_bbox_cbb e (u : QB) :
  el_bbox QOps strp (with_cbb QOps e (Some u)) =
  match eget QOps e "transform" with
  | Some t => bind (parse_transform QOps strp t) (fun ts => Ok (Some (apply_transform QOps ts u)))
  | None => Ok (Some u) end.
Proof. unfold el_bbox. cbn. unfold eget. cbn. destruct (get (eattrs QOps e) "transform"); reflexivity. Qed.
Lemma push_eq e (u1 u2 : option QB) : opt_box_eq u1 u2 ->
  res_box_eq (el_bbox QOps strp (with_cbb QOps e u1)) (el_bbox QOps strp (with_cbb QOps e u2)).
Proof.
  destruct u1 as [a|], u2 as [b|]; cbn [opt_box_eq]; try tauto.
  - intros E. rewrite !el_bbox_cbb. destruct (eget QOps e "transform") as [t|]; [|exact E].
    destruct (parse_transform QOps strp t); cbn; try reflexivity; try exact I. apply apply_transform_eq, E.
  - intros _. destruct (el_bbox QOps strp (with_cbb QOps e None)) as [o| | |]; cbn; try reflexivity; try exact I. apply opt_box_eq_refl.
Qed.
End Push.

Local Open Scope string_scope.
Section Tree.
Context (strp : string -> option Q) (fstr fdisplay : Q -> string).
Local Notation gen_node := (gen_node QOps strp fstr fdisplay).
Local Notation el := (el QOps).
Local Notation emap := (emap QOps).
Local Notation spec_extent := (spec_extent strp).

Lemma bbox_of_plain (c : emap) (e : el) :
  ename QOps e <> "use" -> ename QOps e <> "reuse" -> eget QOps e "clip-path" = None ->
  get_element_bbox QOps strp c e = el_bbox QOps strp e.
Proof.
  intros U R CP. unfold get_element_bbox. cbn [bbox_loop]. unfold get_target_element. cbn [target_loop].
  apply String.eqb_neq in U. apply String.eqb_neq in R. rewrite U, R. cbn [orb bind].
  destruct (el_bbox QOps strp e) as [o| | |]; cbn [bind]; try reflexivity.
  rewrite CP. destruct o; reflexivity.
Qed.

(* leaves svgdx has nothing to resolve on; groups; plain containers *)
Definition plain_el (e : el) : Prop :=
  eget QOps e "clip-path" = None /\
  (eempty QOps e = true ->
     dispatch (ename QOps e) = None /\ ename QOps e <> "use" /\
     (forall c, resolve QOps strp fstr fdisplay c e = Ok e) /\ transmute_dxy QOps strp fstr e = Ok e) /\
  (eempty QOps e = false ->
     ename QOps e = "g" \/ ename QOps e = "symbol" \/ ename QOps e = "specs" \/
     (dispatch (ename QOps e) = None /\ etext QOps e = None /\
      (String.eqb (ename QOps e) "svg" && ehas QOps e "xmlns")%bool = false)).
Fixpoint plain (n : node QOps) : Prop :=
  match n with Node e kids => plain_el e /\ fold_right (fun k acc => plain k /\ acc) True kids end.
Lemma plain_kids e kids : plain (Node e kids) -> plain_el e /\ Forall plain kids.
Proof.
  cbn. intros [H F]. split; [exact H|]. clear H. induction kids as [|k r IH]; [constructor|].
  cbn in F. destruct F as [A B]. constructor; auto.
Qed.

Lemma adds_nothing_b_ok e : adds_nothing_b e = true -> adds_nothing QOps e.
Proof.
  unfold adds_nothing_b, adds_nothing. rewrite !orb_true_iff, !andb_true_iff, !orb_true_iff, !String.eqb_eq, negb_true_iff, mem_str_In.
  intros [[[H|H]|[H1 H2]]|[H1 H2]]; auto.
Qed.

Lemma leaf_extent f (c c' : emap) (e : el) kids b :
  plain_el e -> eempty QOps e = true -> adds_nothing_b e = false ->
  gen_node (S f) false c (Node e kids) = (c', Ok b) -> el_bbox QOps strp e = Ok b.
Proof.
  intros (CP & PL & _) E A H. destruct (PL E) as (D & U & RS & TM).
  cbn [Root.gen_node] in H. rewrite clip_step_no_clip in H by exact CP.
  rewrite D, E in H. unfold gen_other in H. rewrite (RS c) in H. cbn [bind] in H. rewrite TM in H. cbn [bind] in H. rewrite (RS c) in H. cbn [lift] in H.
  assert (R : ename QOps e <> "reuse") by (intros X; rewrite X in D; vm_compute in D; discriminate).
  rewrite bbox_of_plain in H by assumption.
  destruct (el_bbox QOps strp e) as [bb| | |]; cbn [lift] in H; try discriminate.
  assert (P : mem_str (ename QOps e) leaf_no_bbox = false).
  { destruct root_tables_ok as (_ & _ & _ & _ & _ & T & _). rewrite T.
    unfold adds_nothing_b in A. rewrite E in A.
    apply orb_false_iff in A. destruct A as [A _]. apply orb_false_iff in A. destruct A as [_ A]. cbn [andb] in A.
    cbn [mem_str]. rewrite A. reflexivity. }
  rewrite P in H. inversion H; subst. reflexivity.
Qed.

Definition kid_gen (f : nat) : emap -> node QOps -> emap * outcome QB :=
  fun c k => let '(c', r) := gen_node f false (update_element QOps c (node_el QOps k)) k in (c', to_outcome QOps r).

Lemma container_extent f (c c' : emap) (e : el) kids b :
  dispatch (ename QOps e) = None -> eempty QOps e = false -> eget QOps e "clip-path" = None ->
  etext QOps e = None -> (String.eqb (ename QOps e) "svg" && ehas QOps e "xmlns")%bool = false ->
  mem_str (ename QOps e) container_no_bbox = false -> mem_str (ename QOps e) container_unrendered = false ->
  gen_node (S f) false c (Node e kids) = (c', Ok b) ->
  exists c1 log, process_tags (kid_gen f) (bb_combine QOps) kids c = (c1, Ok (b, log)).
Proof.
  intros D E CP TX SV NB UR H. cbn [Root.gen_node] in H. rewrite clip_step_no_clip in H by exact CP.
  rewrite D, E, TX, SV in H.
  assert (H' : (let '(c1, r) :=
                  let '(c'0, r) := process_tags (kid_gen f) (bb_combine QOps) kids c in
                  (c'0, match r with Ok (b0, _) => Ok b0 | Err k => Err k | Panic s => Panic s | OutOfFuel => OutOfFuel end) in
                lift QOps c1 r (container_finish QOps e c1)) = (c', Ok b)) by (destruct kids; exact H).
  clear H. destruct (process_tags (kid_gen f) (bb_combine QOps) kids c) as [c1 r] eqn:P.
  apply lift_ok in H'. destruct H' as (cb & Er & L).
  destruct r as [[cb0 log]| | |]; try discriminate. inversion Er; subst cb0.
  exists c1, log. unfold container_finish in L. rewrite NB, UR in L.
  destruct cb; inversion L; subst; reflexivity.
Qed.

Lemma to_outcome_done (r : res (option QB)) ob : to_outcome QOps r = Done ob -> r = Ok ob.
Proof. destruct r as [o|k| |]; unfold to_outcome; try discriminate; [congruence|]. destruct (mem_str (errkind_name k) fatal_errors); intros X; discriminate X. Qed.

(* the boxes logged by process_tags over plain children are the structural extents of the children *)
Lemma kids_boxes f kids c c1 cb log :
  (forall n c c' b, plain n -> gen_node f false c n = (c', Ok b) -> opt_box_eq b (spec_extent n)) ->
  Forall plain kids ->
  process_tags (kid_gen f) (bb_combine QOps) kids c = (c1, Ok (cb, log)) ->
  opt_box_eq cb (bb_union QOps (flat_map (fun k => opt_list (spec_extent k)) kids)).
Proof.
  intros IH PK P.
  pose proof (process_tags_origin _ _ _ _ _ _ _ P) as OR.
  apply process_tags_union in P. destruct P as (PERM & -> & _).
  apply union_same_boxes.
  assert (ENT : forall t ob, In (t, ob) log -> In t kids /\ opt_box_eq ob (spec_extent t)).
  { intros t ob Hin. split.
    - eapply Permutation_in; [apply Permutation_sym; exact PERM|]. apply (in_map fst) in Hin. exact Hin.
    - rewrite Forall_forall in OR. destruct (OR _ Hin) as [c0 Hd]. cbn [fst snd] in Hd. unfold kid_gen in Hd.
      destruct (gen_node f false (update_element QOps c0 (node_el QOps t)) t) as [c2 r] eqn:G. cbn [snd] in Hd.
      apply to_outcome_done in Hd. subst r. eapply IH; [|exact G].
      rewrite Forall_forall in PK. apply PK. eapply Permutation_in; [apply Permutation_sym; exact PERM|].
      apply (in_map fst) in Hin. exact Hin. }
  split.
  - intros a Ha. unfold log_boxes in Ha. apply in_flat_map in Ha. destruct Ha as ([t ob] & Hin & Ha). cbn [snd] in Ha.
    destruct ob as [a'|]; [|destruct Ha]. destruct Ha as [->|[]].
    destruct (ENT _ _ Hin) as [Hk He]. destruct (spec_extent t) as [b|] eqn:S; [|destruct He].
    exists b. split; [|exact He]. apply in_flat_map. exists t. split; [exact Hk|]. rewrite S. left. reflexivity.
  - intros b Hb. apply in_flat_map in Hb. destruct Hb as (t & Hk & Hb).
    destruct (spec_extent t) as [b'|] eqn:S; [|destruct Hb]. destruct Hb as [->|[]].
    assert (Hl : In t (map fst log)) by (eapply Permutation_in; [exact PERM | exact Hk]).
    apply in_map_iff in Hl. destruct Hl as ([t' ob] & Et & Hin). cbn in Et. subst t'.
    destruct (ENT _ _ Hin) as [_ He]. rewrite S in He. destruct ob as [a|]; [|destruct He].
    exists a. split; [|exact He]. unfold log_boxes. apply in_flat_map. exists (t, Some a). split; [exact Hin|]. left. reflexivity.
Qed.

Theorem plain_tree_extent : forall f n c c' b,
  plain n -> gen_node f false c n = (c', Ok b) -> opt_box_eq b (spec_extent n).
Proof.
  induction f as [|f IH]; intros n c c' b PL H; [cbn in H; discriminate|].
  destruct n as [e kids]. destruct (plain_kids _ _ PL) as [PE PK].
  cbn [spec_extent].
  destruct (adds_nothing_b e) eqn:A.
  { apply adds_nothing_b_ok in A. rewrite (adds_nothing_ok QOps strp fstr fdisplay f false c e kids c' b A H). exact I. }
  destruct (eempty QOps e) eqn:E.
  { rewrite (leaf_extent f c c' e kids b PE E A H). cbn. apply opt_box_eq_refl. }
  destruct PE as (CP & _ & PN). destruct (PN E) as [G|[G|[G|(D & TX & SV)]]].
  - (* g *)
    rewrite G. cbn [String.eqb Ascii.eqb Bool.eqb].
    destruct (group_extent QOps strp fstr fdisplay f c e kids c' b G E CP H) as (c1 & cb & log & P & B).
    fold (kid_gen f) in P.
    pose proof (kids_boxes f kids c c1 cb log IH PK P) as U.
    pose proof (push_eq strp e _ _ U) as R. rewrite B in R.
    destruct (el_bbox QOps strp (with_cbb QOps e (bb_union QOps _))) as [o| | |]; cbn in R; try contradiction. exact R.
  - unfold adds_nothing_b in A. rewrite G in A. cbn in A. discriminate.
  - unfold adds_nothing_b in A. rewrite G in A. cbn in A. discriminate.
  - (* other container *)
    assert (NG : String.eqb (ename QOps e) "g" = false).
    { apply String.eqb_neq. intros X. rewrite X in D. vm_compute in D. discriminate. }
    rewrite NG.
    assert (AA : String.eqb (ename QOps e) "symbol" = false /\ String.eqb (ename QOps e) "defs" = false /\
                 mem_str (ename QOps e) container_unrendered = false).
    { unfold adds_nothing_b in A. rewrite E in A.
      apply orb_false_iff in A. destruct A as [A A4]. apply orb_false_iff in A. destruct A as [A _].
      apply orb_false_iff in A. destruct A as [A1 _]. cbn [negb andb] in A4. apply orb_false_iff in A4. tauto. }
    destruct AA as (A1 & A2 & UR).
    assert (NB : mem_str (ename QOps e) container_no_bbox = false).
    { destruct root_tables_ok as (_ & _ & _ & _ & T & _). rewrite T. cbn [mem_str]. rewrite A1, A2. reflexivity. }
    destruct (container_extent f c c' e kids b D E CP TX SV NB UR H) as (c1 & log & P).
    exact (kids_boxes f kids c c1 b log IH PK P).
Qed.
End Tree.

(* a document whose single top-level element is plain: the extent accumulated by process_events is
   the structural extent of the written tree *)
Section DocTree.
Context (strp : string -> option Q) (fstr fdisplay : Q -> string).
Theorem plain_document_extent (n : node QOps) ext :
  plain strp fstr fdisplay n -> is_real_svg QOps [n] = false ->
  doc_extent QOps strp fstr fdisplay [n] = Ok ext ->
  opt_box_eq ext (spec_extent strp n).
Proof.
  intros PL NR H. unfold doc_extent in H. rewrite NR in H.
  generalize dependent doc_fuel. intros fu H.
  change (fun (c : emap QOps) (k : node QOps) =>
            let '(c', r) := gen_node QOps strp fstr fdisplay fu false (update_element QOps c (node_el QOps k)) k in
            (c', to_outcome QOps r)) with (kid_gen strp fstr fdisplay fu) in H.
  destruct (process_tags (kid_gen strp fstr fdisplay fu) (bb_combine QOps) [n] _) as [c1 r] eqn:P.
  destruct r as [[b log]| | |]; try discriminate. inversion H; subst b.
  pose proof (kids_boxes strp fstr fdisplay fu [n] _ c1 ext log
               (plain_tree_extent strp fstr fdisplay fu) (Forall_cons _ PL (Forall_nil _)) P) as U.
  cbn [flat_map] in U. rewrite app_nil_r in U. destruct (spec_extent strp n); cbn in U |- *; exact U.
Qed.
End DocTree.

(* ================================================================ a concrete plain document on exact rationals *)
Local Open Scope string_scope.
(* a toy number syntax on exact rationals: the numerals 0..9 *)
Definition toy_table : list (string * Q) := [("0", 0); ("1", 1); ("2", 2); ("3", 3); ("4", 4); ("5", 5); ("6", 6); ("7", 7); ("8", 8); ("9", 9)]%Q.
Definition toy_strp (s : string) : option Q := assoc (trim s) toy_table.
Definition toy_fstr (q : Q) : string :=
  match find (fun kv => Qeq_bool (snd kv) q) toy_table with Some kv => fst kv | None => "?" end.
Definition qel (name : string) (a : attrs) (empty : bool) : el QOps :=
  let e := new_el QOps name a in
  {| ename := ename QOps e; eattrs := eattrs QOps e; ecls := ecls QOps e; ecbb := None; eidx := 0%Z; etext := None;
     eindent := 0; eline := 0; eempty := empty; eorig := "" |}.
Definition toy_doc : node QOps :=
  Node (qel "svg" [] false)
    [Node (qel "g" [("transform", "translate(1 2) scale(2)")] false)
       [Node (qel "rect" [("x", "1"); ("y", "2"); ("width", "3"); ("height", "4")] true) []];
     Node (qel "defs" [] false) [Node (qel "circle" [("cx", "9"); ("cy", "9"); ("r", "5")] true) []];
     Node (qel "circle" [("cx", "5"); ("cy", "1"); ("r", "1")] true) []].
Ltac leaf_plain :=
  unfold plain_el; split; [reflexivity | split;
    [ intros _; split; [reflexivity | split; [discriminate | split; [intro c; vm_compute; reflexivity | vm_compute; reflexivity]]]
    | intros H; vm_compute in H; discriminate H ]].
Ltac cont_plain :=
  unfold plain_el; split; [reflexivity | split;
    [ intros H; vm_compute in H; discriminate H
    | intros _; vm_compute; first [left; reflexivity | right; left; reflexivity | right; right; left; reflexivity
                                  | right; right; right; repeat split; reflexivity] ]].
Lemma toy_doc_plain : plain toy_strp toy_fstr toy_fstr toy_doc.
Proof.
  unfold toy_doc. cbn [plain fold_right].
  repeat match goal with |- _ /\ _ => split | |- True => exact I end; first [leaf_plain | cont_plain].
Qed.
