(* Lemmas about the theme builder model (Model/Themes.v): order independence (C06),
   rule-iff-class and url closure (C20). *)
From Coq Require Import String Ascii List Bool ZArith NArith Lia Permutation.
From SvgdxModel Require Import Base.Str Base.Res Num.F32 Gen.Tables Model.Themes.
Import ListNotations.
Open Scope string_scope.

(* ------------------------------------------------------------------ generic *)
Lemma has_In l c : has l c = true <-> In c l.
Proof. apply mem_str_In. Qed.

Lemma has_perm l l' c : Permutation l l' -> has l c = has l' c.
Proof.
  intro P. destruct (has l c) eqn:E; symmetry.
  - apply has_In. apply has_In in E. eapply Permutation_in; eauto.
  - destruct (has l' c) eqn:E'; [|reflexivity].
    apply has_In in E'. apply Permutation_sym in P.
    assert (H : In c l) by (eapply Permutation_in; eauto).
    apply has_In in H. congruence.
Qed.

Lemma filter_perm {A} (f : A -> bool) l l' : Permutation l l' -> Permutation (filter f l) (filter f l').
Proof.
  induction 1 as [|x l l' P IH|x y l|l l' l'' P1 IH1 P2 IH2]; cbn.
  - constructor.
  - destruct (f x); [constructor|]; exact IH.
  - destruct (f x), (f y); try apply Permutation_refl. apply perm_swap.
  - eapply Permutation_trans; eauto.
Qed.

(* ------------------------------------------------------------------ the string order *)
Lemma ascii_cmp_trans a b c :
  Ascii.compare a b <> Gt -> Ascii.compare b c <> Gt -> Ascii.compare a c <> Gt.
Proof.
  unfold Ascii.compare. intros H1 H2 H3.
  apply N.compare_gt_iff in H3.
  pose proof (proj1 (N.compare_le_iff _ _) H1). pose proof (proj1 (N.compare_le_iff _ _) H2). lia.
Qed.

Lemma str_cmp_trans : forall a b c,
  String.compare a b <> Gt -> String.compare b c <> Gt -> String.compare a c <> Gt.
Proof.
  induction a as [|x a IH]; intros [|y b] [|z c]; cbn; try congruence.
  intros H1 H2.
  destruct (Ascii.compare x y) eqn:E1; [| |congruence];
  destruct (Ascii.compare y z) eqn:E2; try congruence.
  - apply Ascii.compare_eq_iff in E1. apply Ascii.compare_eq_iff in E2. subst.
    assert (E : Ascii.compare z z = Eq) by (unfold Ascii.compare; apply N.compare_refl).
    rewrite E. eapply IH; eauto.
  - apply Ascii.compare_eq_iff in E1. subst. rewrite E2. congruence.
  - apply Ascii.compare_eq_iff in E2. subst. rewrite E1. congruence.
  - assert (E : Ascii.compare x z = Lt).
    { unfold Ascii.compare in E1, E2 |- *.
      pose proof (proj1 (N.compare_lt_iff _ _) E1). pose proof (proj1 (N.compare_lt_iff _ _) E2).
      apply (proj2 (N.compare_lt_iff _ _)). lia. }
    rewrite E. congruence.
Qed.

Lemma leb_trans a b c : String.leb a b = true -> String.leb b c = true -> String.leb a c = true.
Proof.
  unfold String.leb. intros H1 H2.
  assert (N1 : String.compare a b <> Gt) by (destruct (String.compare a b); congruence).
  assert (N2 : String.compare b c <> Gt) by (destruct (String.compare b c); congruence).
  pose proof (str_cmp_trans a b c N1 N2) as N3.
  destruct (String.compare a c); congruence.
Qed.

Fixpoint ssorted (l : list string) : Prop :=
  match l with
  | [] => True
  | x :: r => (forall y, In y r -> String.leb x y = true) /\ ssorted r
  end.

Lemma insert_sorted_perm x l : Permutation (insert_sorted x l) (x :: l).
Proof.
  induction l as [|y r IH]; cbn; [apply Permutation_refl|].
  destruct (String.leb x y); [apply Permutation_refl|].
  eapply Permutation_trans; [apply perm_skip; exact IH | apply perm_swap].
Qed.

Lemma sort_perm l : Permutation (sort_strings l) l.
Proof.
  induction l as [|x r IH]; cbn; [constructor|].
  eapply Permutation_trans; [apply insert_sorted_perm | apply perm_skip; exact IH].
Qed.

Lemma insert_sorted_sorted x l : ssorted l -> ssorted (insert_sorted x l).
Proof.
  induction l as [|y r IH]; cbn; intro S.
  - split; [intros ? []|exact I].
  - destruct S as [Hy Sr]. destruct (String.leb x y) eqn:E; cbn.
    + split; [|split; assumption].
      intros z [<-|Hz]; [exact E|]. eapply leb_trans; [exact E|]. apply Hy; exact Hz.
    + split; [|apply IH; exact Sr].
      intros z Hz.
      apply (Permutation_in _ (insert_sorted_perm x r)) in Hz.
      destruct Hz as [<-|Hz]; [|apply Hy; exact Hz].
      destruct (String.leb_total x y) as [H|H]; congruence.
Qed.

Lemma sort_sorted l : ssorted (sort_strings l).
Proof. induction l as [|x r IH]; cbn; [exact I|]. apply insert_sorted_sorted; exact IH. Qed.

Lemma sorted_perm_eq : forall l l', ssorted l -> ssorted l' -> Permutation l l' -> l = l'.
Proof.
  induction l as [|x r IH]; intros [|x' r'] S S' P.
  - reflexivity.
  - apply Permutation_nil in P. discriminate.
  - apply Permutation_sym, Permutation_nil in P. discriminate.
  - destruct S as [Hx Sr]. destruct S' as [Hx' Sr'].
    assert (E : x = x').
    { assert (I1 : In x (x' :: r')) by (eapply Permutation_in; [exact P | left; reflexivity]).
      assert (I2 : In x' (x :: r)) by (eapply Permutation_in; [apply Permutation_sym; exact P | left; reflexivity]).
      destruct I1 as [->|I1]; [reflexivity|]. destruct I2 as [->|I2]; [reflexivity|].
      apply String.leb_antisym; [apply Hx; exact I2 | apply Hx'; exact I1]. }
    subst x'. f_equal. apply IH; try assumption. eapply Permutation_cons_inv; exact P.
Qed.

Lemma sort_perm_eq l l' : Permutation l l' -> sort_strings l = sort_strings l'.
Proof.
  intro P. apply sorted_perm_eq; try apply sort_sorted.
  eapply Permutation_trans; [apply sort_perm|].
  eapply Permutation_trans; [exact P|]. apply Permutation_sym, sort_perm.
Qed.

(* ------------------------------------------------------------------ C06: order independence *)
Section Order.
  Context (st : settings) (tc : tconsts) (els els' cls cls' : list string).
  Context (Pc : Permutation cls cls') (Pe : Permutation els els').

  Let hc : forall c, has cls c = has cls' c := fun c => has_perm _ _ c Pc.
  Let he : forall c, has els c = has els' c := fun c => has_perm _ _ c Pe.

  Lemma guarded_perm {A} (key : A -> string) body rows : guarded cls key body rows = guarded cls' key body rows.
  Proof. unfold guarded. apply flat_map_ext. intro r. rewrite hc. reflexivity. Qed.
  Lemma any_class_perm rows : any_class cls rows = any_class cls' rows.
  Proof. unfold any_class. induction rows as [|[c r] t IH]; cbn; [reflexivity|]. rewrite hc, IH. reflexivity. Qed.

  Lemma sec_early_perm : sec_early tc cls = sec_early tc cls'.
  Proof. unfold sec_early. rewrite guarded_perm. reflexivity. Qed.
  Lemma sec_colour_perm : sec_colour cls = sec_colour cls'.
  Proof. unfold sec_colour. apply flat_map_ext. intro blk. apply guarded_perm. Qed.
  Lemma sec_stroke_width_perm : sec_stroke_width tc cls = sec_stroke_width tc cls'.
  Proof. unfold sec_stroke_width. apply guarded_perm. Qed.
  Lemma text_gate_perm : text_gate els = text_gate els'.
  Proof. unfold text_gate, gate. rewrite !he. reflexivity. Qed.
  Lemma sec_text_perm : sec_text st els cls = sec_text st els' cls'.
  Proof. unfold sec_text. rewrite text_gate_perm, !guarded_perm. reflexivity. Qed.
  Lemma sec_arrow_perm : sec_arrow cls = sec_arrow cls'.
  Proof. unfold sec_arrow. rewrite guarded_perm, any_class_perm. reflexivity. Qed.
  Lemma sec_dash_perm : sec_dash cls = sec_dash cls'.
  Proof. unfold sec_dash. rewrite !guarded_perm, any_class_perm. reflexivity. Qed.
  Lemma sec_shadow_perm : sec_shadow cls = sec_shadow cls'.
  Proof. unfold sec_shadow. apply guarded_perm. Qed.
  (* the one place where the class set is iterated: needs the sort *)
  Lemma pattern_classes_perm base : pattern_sorted = true -> pattern_classes cls base = pattern_classes cls' base.
  Proof.
    intro Hs. unfold pattern_classes. rewrite Hs, hc.
    rewrite (sort_perm_eq _ _ (filter_perm _ _ _ Pc)). reflexivity.
  Qed.
  Lemma sec_pattern_perm : pattern_sorted = true -> sec_pattern tc cls = sec_pattern tc cls'.
  Proof.
    intro Hs. unfold sec_pattern. apply flat_map_ext. intro row.
    unfold pattern_family. rewrite (pattern_classes_perm _ Hs). reflexivity.
  Qed.

  Lemma section_perm name : pattern_sorted = true -> section st tc els cls name = section st tc els' cls' name.
  Proof.
    intro Hs. unfold section.
    rewrite sec_early_perm, sec_colour_perm, sec_stroke_width_perm, sec_text_perm,
      sec_arrow_perm, sec_dash_perm, (sec_pattern_perm Hs), sec_shadow_perm.
    reflexivity.
  Qed.

  Lemma build_items_perm : pattern_sorted = true -> build_items st tc els cls = build_items st tc els' cls'.
  Proof.
    intro Hs. unfold build_items. f_equal. f_equal.
    apply flat_map_ext. intro name. apply section_perm; exact Hs.
  Qed.
End Order.

Lemma pattern_sorted_true : pattern_sorted = true.
Proof. reflexivity. Qed.

Lemma build_perm st els els' cls cls' :
  Permutation cls cls' -> Permutation els els' -> build st els cls = build st els' cls'.
Proof.
  intros Pc Pe. unfold build. destruct (theme_consts (s_theme st)); [|reflexivity].
  f_equal. apply build_items_perm; try assumption. exact pattern_sorted_true.
Qed.

(* ------------------------------------------------------------------ C20: rule iff class *)
Open Scope list_scope.
Lemma sowners_app a b : sowners (a ++ b) = sowners a ++ sowners b.
Proof. apply flat_map_app. Qed.

Lemma sowners_flat_map {A} (f : A -> list item) l : sowners (flat_map f l) = flat_map (fun x => sowners (f x)) l.
Proof. induction l as [|x r IH]; cbn; [reflexivity|]. rewrite sowners_app, IH. reflexivity. Qed.

Lemma sowners_spec l c : In c (sowners l) <-> exists i, In i l /\ is_def i = false /\ owner i = Some c.
Proof.
  unfold sowners. rewrite in_flat_map. split.
  - intros [i [Hi Hc]]. exists i. split; [exact Hi|]. unfold sowner in Hc.
    destruct (is_def i); [destruct Hc|]. destruct (owner i) as [o|]; [|destruct Hc].
    destruct Hc as [->|[]]. split; reflexivity.
  - intros [i [Hi [Hd Ho]]]. exists i. split; [exact Hi|]. unfold sowner. rewrite Hd, Ho. left; reflexivity.
Qed.

(* a row body "belongs" to its key: it emits at least one style rule and all of them are owned by the key *)
Definition owners_ok {A} (key : A -> string) (body : A -> list item) (rows : list A) : bool :=
  forallb (fun r => match sowners (body r) with [] => false | o => forallb (String.eqb (key r)) o end) rows.

Lemma owners_ok_spec {A} (key : A -> string) body rows :
  owners_ok key body rows = true -> forall r, In r rows -> forall x, In x (sowners (body r)) <-> x = key r.
Proof.
  unfold owners_ok. rewrite forallb_forall. intros H r Hr x. specialize (H r Hr).
  destruct (sowners (body r)) as [|o t] eqn:E; [discriminate|].
  rewrite forallb_forall in H. split.
  - intro Hx. specialize (H x Hx). apply String.eqb_eq in H. congruence.
  - intros ->. assert (Ho : In o (o :: t)) by (left; reflexivity).
    specialize (H o Ho). apply String.eqb_eq in H. subst o. left; reflexivity.
Qed.

Lemma guarded_owners {A} (key : A -> string) body rows cls c :
  (forall r, In r rows -> forall x, In x (sowners (body r)) <-> x = key r) ->
  (In c (sowners (guarded cls key body rows)) <-> In c (map key rows) /\ In c cls).
Proof.
  intro H. unfold guarded. rewrite sowners_flat_map, in_flat_map, in_map_iff. split.
  - intros [r [Hr Hc]]. destruct (has cls (key r)) eqn:E; [|destruct Hc].
    apply (H r Hr) in Hc. subst c. split; [exists r; auto | apply has_In; exact E].
  - intros [[r [<- Hr]] Hc]. exists r. split; [exact Hr|].
    apply has_In in Hc. rewrite Hc. apply (H r Hr). reflexivity.
Qed.

Lemma one_owner {A} (key : A -> string) (body : A -> list item) (t : A -> string) rows :
  (forall r, body r = [style_of (Some (key r)) (t r)]) ->
  forall r, In r rows -> forall x, In x (sowners (body r)) <-> x = key r.
Proof. intros H r _ x. rewrite H. cbn. split; [intros [<-|[]]; reflexivity | intros ->; left; reflexivity]. Qed.

Lemma colour_owners_ok : forallb (fun blk => owners_ok (colour_class blk) (colour_body blk) colour_list) colour_blocks = true.
Proof. vm_compute. reflexivity. Qed.

Section Iff.
  Context (st : settings) (tc : tconsts) (els cls : list string).

  Lemma own_rules rows c : In c (sowners (guarded cls fst one_rule rows)) <-> In c (map fst rows) /\ In c cls.
  Proof. apply guarded_owners. apply (one_owner fst one_rule snd). reflexivity. Qed.

  Lemma own_early c : In c (sowners (sec_early tc cls)) <-> In c (map fst early_rules) /\ In c cls.
  Proof.
    unfold sec_early. rewrite sowners_app, in_app_iff, own_rules.
    destruct (t_early tc); cbn; tauto.
  Qed.
  Lemma own_common : sowners (sec_common st tc) = [].
  Proof. unfold sec_common. induction common_templates as [|t r IH]; cbn; [reflexivity|exact IH]. Qed.
  Lemma own_colour c : In c (sowners (sec_colour cls)) <-> In c colour_vocab /\ In c cls.
  Proof.
    unfold sec_colour, colour_vocab. rewrite sowners_flat_map, !in_flat_map.
    pose proof colour_owners_ok as OK. rewrite forallb_forall in OK. split.
    - intros [blk [Hb Hc]]. apply (guarded_owners _ _ _ _ _ (owners_ok_spec _ _ _ (OK blk Hb))) in Hc.
      destruct Hc as [Hv Hc]. split; [exists blk; auto | exact Hc].
    - intros [[blk [Hb Hv]] Hc]. exists blk. split; [exact Hb|].
      apply (guarded_owners _ _ _ _ _ (owners_ok_spec _ _ _ (OK blk Hb))). auto.
  Qed.
  Lemma own_stroke_width c : In c (sowners (sec_stroke_width tc cls)) <-> In c (map fst stroke_widths) /\ In c cls.
  Proof.
    apply guarded_owners.
    apply (one_owner fst _ (fun cw => render [("class", fst cw); ("0", fstr (fmul (t_sw tc) (num (snd cw))))] stroke_width_template)).
    reflexivity.
  Qed.
  Lemma own_text c : In c (sowners (sec_text st els cls)) <-> In c text_vocab /\ In c cls /\ text_gate els = true.
  Proof.
    unfold sec_text, text_vocab. destruct (text_gate els).
    - rewrite !sowners_app, !in_app_iff, own_rules.
      rewrite (guarded_owners fst (text_size_rule st) text_sizes cls c
                 (one_owner fst _ (fun cw => render [("0", fst cw); ("1", fstr (fmul (s_font_size st) (num (snd cw))))] text_size_template) _ (fun _ => eq_refl))).
      rewrite (guarded_owners fst text_ol_rule text_ol_widths cls c
                 (one_owner fst _ (fun cw => render [("0", fst cw); ("1", fstr (num (snd cw)))] text_ol_template) _ (fun _ => eq_refl))).
      tauto.
    - cbn. split; [intros [] | intros [_ [_ H]]; discriminate].
  Qed.
  Lemma own_arrow c : In c (sowners (sec_arrow cls)) <-> In c (map fst arrow_rules) /\ In c cls.
  Proof.
    unfold sec_arrow. rewrite sowners_app, in_app_iff, own_rules.
    destruct (any_class cls arrow_rules); cbn; tauto.
  Qed.
  Lemma own_dash c : In c (sowners (sec_dash cls)) <-> In c (map fst flow_styles ++ map fst dash_styles) /\ In c cls.
  Proof.
    unfold sec_dash. rewrite !sowners_app, !in_app_iff, own_rules.
    rewrite (guarded_owners fst flow_rule flow_styles cls c
               (one_owner fst _ (fun cs => render [("class", fst cs); ("speed", snd cs)] flow_template) _ (fun _ => eq_refl))).
    destruct (any_class cls flow_styles); cbn; tauto.
  Qed.
  Lemma own_shadow c : In c (sowners (sec_shadow cls)) <-> In c (map fst shadow_table) /\ In c cls.
  Proof.
    apply guarded_owners. intros r _ x. cbn.
    split; [intros [<-|[]]; reflexivity | intros ->; left; reflexivity].
  Qed.

  Lemma strip_prefix_starts p : forall s r, strip_prefix p s = Some r -> starts_with p s = true.
  Proof.
    induction p as [|a p IH]; intros [|b s] r; cbn; try discriminate; try reflexivity.
    destruct (Ascii.eqb a b); [|discriminate]. apply IH.
  Qed.
  Lemma get_spacing_starts spec c : get_spacing spec c <> None -> starts_with spec c = true.
  Proof.
    unfold get_spacing. destruct (strip_prefix spec c) eqn:E; [|congruence].
    intros _. eapply strip_prefix_starts; exact E.
  Qed.

  Lemma own_pattern_items c n pt rot : sowners (pattern_items tc c n pt rot) = [c].
  Proof. reflexivity. Qed.

  Lemma pattern_classes_in base c :
    In c (map fst (pattern_classes cls base)) <->
    In c cls /\ (c = base \/ get_spacing (pattern_spec base) c <> None).
  Proof.
    unfold pattern_classes. rewrite map_app, in_app_iff. split.
    - intros [H|H].
      + destruct (has cls base) eqn:E; [|destruct H]. destruct H as [<-|[]]. cbn.
        split; [apply has_In; exact E | left; reflexivity].
      + apply in_map_iff in H. destruct H as [[c' n] [<- H]]. apply in_flat_map in H.
        destruct H as [d [Hd H]]. destruct (get_spacing (pattern_spec base) d) eqn:G; [|destruct H].
        destruct H as [H|[]]. injection H as H1 H2. subst c' n. cbn [fst]. split; [|right; rewrite G; discriminate].
        assert (Hf : In d (filter (starts_with (pattern_spec base)) cls)).
        { destruct pattern_sorted; [|exact Hd]. eapply Permutation_in; [apply sort_perm | exact Hd]. }
        apply filter_In in Hf. tauto.
    - intros [Hc [->|G]].
      + left. apply has_In in Hc. rewrite Hc. left; reflexivity.
      + right. destruct (get_spacing (pattern_spec base) c) as [n|] eqn:G'; [|congruence].
        apply in_map_iff. exists (c, n). split; [reflexivity|]. apply in_flat_map. exists c.
        split; [|rewrite G'; left; reflexivity].
        assert (Hf : In c (filter (starts_with (pattern_spec base)) cls)).
        { apply filter_In. split; [exact Hc|]. apply get_spacing_starts. congruence. }
        destruct pattern_sorted; [|exact Hf].
        eapply Permutation_in; [apply Permutation_sym, sort_perm | exact Hf].
  Qed.

  Lemma own_family row : sowners (pattern_family tc cls row) = map fst (pattern_classes cls (fst row)).
  Proof.
    unfold pattern_family. rewrite sowners_flat_map.
    induction (pattern_classes cls (fst row)) as [|[c n] t IH]; [reflexivity|].
    cbn [flat_map map fst]. rewrite IH. reflexivity.
  Qed.

  Lemma is_some_ne {A} (o : option A) : is_some o = true <-> o <> None.
  Proof. destruct o; cbn; split; congruence. Qed.

  Lemma own_pattern c : In c (sowners (sec_pattern tc cls)) <-> pattern_classb c = true /\ In c cls.
  Proof.
    unfold sec_pattern, pattern_classb. rewrite sowners_flat_map, in_flat_map, existsb_exists. split.
    - intros [row [Hr H]]. rewrite own_family in H. apply pattern_classes_in in H. destruct H as [Hc H].
      split; [|exact Hc]. exists row. split; [exact Hr|]. unfold in_family. apply orb_true_iff.
      destruct H as [->|H]; [left; apply String.eqb_refl | right; apply is_some_ne; exact H].
    - intros [[row [Hr H]] Hc]. exists row. split; [exact Hr|]. rewrite own_family. apply pattern_classes_in.
      split; [exact Hc|]. unfold in_family in H. apply orb_true_iff in H.
      destruct H as [H|H]; [left; apply String.eqb_eq; exact H | right; apply is_some_ne; exact H].
  Qed.

  Lemma seq_sections :
    flat_map (section st tc els cls) build_sequence =
    sec_early tc cls ++ sec_common st tc ++ sec_colour cls ++ sec_stroke_width tc cls ++ sec_text st els cls
    ++ sec_arrow cls ++ sec_dash cls ++ sec_pattern tc cls ++ sec_shadow cls ++ [].
  Proof. reflexivity. Qed.

  Lemma own_head : sowners (head_items st tc) = [].
  Proof. unfold head_items. destruct (s_local_id st); reflexivity. Qed.
  Lemma own_tail : sowners (tail_items st) = [].
  Proof. unfold tail_items. destruct (s_local_id st); reflexivity. Qed.

  Lemma text_vocab_disjoint :
    forallb (fun c => negb (mem_str c plain_vocab) && negb (pattern_classb c))%bool text_vocab = true.
  Proof. vm_compute. reflexivity. Qed.

  Lemma build_items_owners c :
    In c (sowners (build_items st tc els cls)) <->
    In c cls /\ ((In c plain_vocab) \/ (In c text_vocab /\ text_gate els = true) \/ pattern_classb c = true).
  Proof.
    unfold build_items. rewrite seq_sections, !sowners_app, own_head, own_tail, own_common.
    cbn [app]. rewrite !in_app_iff, own_early, own_colour, own_stroke_width, own_text, own_arrow,
      own_dash, own_pattern, own_shadow.
    unfold plain_vocab. rewrite !in_app_iff. cbn [sowners flat_map In]. tauto.
  Qed.

  Lemma rule_iff_class_items c :
    reservedb c = true ->
    (In c (sowners (build_items st tc els cls)) <->
     In c cls /\ (needs_text c = true -> text_gate els = true)).
  Proof.
    intro R. rewrite build_items_owners. unfold reservedb in R. unfold needs_text.
    pose proof text_vocab_disjoint as D. rewrite forallb_forall in D.
    destruct (mem_str c text_vocab) eqn:T.
    - apply mem_str_In in T. specialize (D c T). apply andb_true_iff in D. destruct D as [D1 D2].
      apply negb_true_iff in D1. apply negb_true_iff in D2.
      assert (NP : ~ In c plain_vocab) by (intro H; apply mem_str_In in H; congruence).
      split.
      + intros [Hc [H|[[_ H]|H]]]; [contradiction | | congruence]. split; [exact Hc | intros _; exact H].
      + intros [Hc H]. split; [exact Hc|]. right. left. split; [exact T | apply H; reflexivity].
    - assert (NT : ~ In c text_vocab) by (intro H; apply mem_str_In in H; congruence).
      rewrite orb_false_r in R. split.
      + intros [Hc _]. split; [exact Hc | discriminate].
      + intros [Hc _]. split; [exact Hc|]. apply orb_true_iff in R. destruct R as [R|R].
        * left. apply mem_str_In. exact R.
        * right. right. exact R.
  Qed.
End Iff.

Lemma rule_iff_class_build st els cls items c :
  build st els cls = Ok items -> reservedb c = true ->
  ((exists i, In i items /\ is_def i = false /\ owner i = Some c) <->
   In c cls /\ (needs_text c = true -> text_gate els = true)).
Proof.
  unfold build. destruct (theme_consts (s_theme st)) as [tc|]; [|discriminate].
  intros H R. inversion H; subst items. rewrite <- sowners_spec. apply rule_iff_class_items. exact R.
Qed.

(* ------------------------------------------------------------------ postprocess / write_auto_styles *)
(* the generated condition is the conjunction of the two flags *)
Lemma auto_styles_cond b1 b2 st evs :
  auto_styles b1 b2 st evs =
  if (b2 && b1)%bool then Some (build st (collect_elements evs) (collect_classes evs)) else None.
Proof. destruct b1, b2; reflexivity. Qed.

Lemma auto_styles_perm b1 b2 st evs cls' els' :
  Permutation (collect_classes evs) cls' -> Permutation (collect_elements evs) els' ->
  auto_styles b1 b2 st evs = if (b2 && b1)%bool then Some (build st els' cls') else None.
Proof.
  intros Pc Pe. rewrite auto_styles_cond. destruct (b2 && b1)%bool; [|reflexivity].
  f_equal. apply build_perm; assumption.
Qed.
