(* String lemmas: attr_split on "a sep b" and the shorthand expansion of compound attributes. *)
From Coq Require Import String Ascii List Bool Arith Lia.
From SvgdxModel Require Import Base.Str Base.Res Gen.Tables Model.Types Proofs.TypesP.
Import ListNotations.
Open Scope string_scope.

Definition is_sep (c : ascii) : bool := (is_ws c || Ascii.eqb c ",")%bool.
Definition tokch (c : ascii) : bool := negb (is_sep c).
Definition token (s : string) : Prop := nonempty s = true /\ forall_char tokch s = true.
Definition sepstr (s : string) : Prop := nonempty s = true /\ forall_char is_sep s = true.

Lemma app_nil_r_str (s : string) : s ++ "" = s.
Proof. induction s as [|c s IH]; cbn; [reflexivity | now rewrite IH]. Qed.

Lemma split_on_nonnil p s : split_on p s <> [].
Proof. destruct s as [|c r]; cbn; [discriminate|]. destruct (p c); [discriminate|]. destruct (split_on p r); discriminate. Qed.

Lemma split_on_app_tok p a r : forall_char (fun c => negb (p c)) a = true ->
  split_on p (a ++ r) = match split_on p r with h :: t => (a ++ h) :: t | [] => [a] end.
Proof.
  induction a as [|c a IH]; cbn; intros H.
  - destruct (split_on p r) eqn:E; [exfalso; eapply split_on_nonnil; eauto | reflexivity].
  - apply andb_true_iff in H. destruct H as [Hc Ha]. apply negb_true_iff in Hc. rewrite Hc.
    rewrite IH by exact Ha. destruct (split_on p r) eqn:E; [exfalso; eapply split_on_nonnil; eauto | reflexivity].
Qed.

Definition fcomma (w : string) : list string := filter nonempty (split_char "," w).
Lemma attr_split_unfold s : attr_split s = flat_map fcomma (filter nonempty (split_on is_ws s)).
Proof. reflexivity. Qed.
Lemma fcomma_empty : fcomma "" = [].
Proof. reflexivity. Qed.
Lemma fcomma_comma h : fcomma (String "," h) = fcomma h.
Proof. unfold fcomma, split_char. cbn. reflexivity. Qed.

(* a leading separator is dropped *)
Lemma attr_split_sep c r : is_sep c = true -> attr_split (String c r) = attr_split r.
Proof.
  intros H. rewrite !attr_split_unfold. unfold is_sep in H. apply orb_true_iff in H.
  destruct (is_ws c) eqn:W.
  - cbn [split_on]. rewrite W. reflexivity.
  - destruct H as [H|H]; [discriminate|]. apply Ascii.eqb_eq in H; subst c.
    cbn [split_on]. rewrite W. destruct (split_on is_ws r) as [|h t] eqn:E; [exfalso; eapply split_on_nonnil; eauto|].
    cbn [filter nonempty flat_map]. rewrite fcomma_comma.
    destruct h; cbn [nonempty filter flat_map]; [rewrite fcomma_empty|]; reflexivity.
Qed.
Lemma attr_split_sepstr s r : forall_char is_sep s = true -> attr_split (s ++ r) = attr_split r.
Proof.
  induction s as [|c s IH]; intros H; cbn [append forall_char] in *; [reflexivity|].
  apply andb_true_iff in H. destruct H as [Hc Hs]. rewrite attr_split_sep by exact Hc. auto.
Qed.

Lemma forall_char_impl (p q : ascii -> bool) a :
  (forall c, p c = true -> q c = true) -> forall_char p a = true -> forall_char q a = true.
Proof.
  intros Hpq. induction a as [|c a IH]; intros H; [reflexivity|].
  cbn [forall_char] in *. apply andb_true_iff in H. destruct H as [Hc Ha].
  apply andb_true_iff. split; [apply Hpq; exact Hc | apply IH; exact Ha].
Qed.
Lemma tokch_not_ws a : forall_char tokch a = true -> forall_char (fun c => negb (is_ws c)) a = true.
Proof.
  apply forall_char_impl. intros c Hc. unfold tokch, is_sep in Hc.
  apply negb_true_iff, orb_false_iff in Hc. destruct Hc as [-> _]. reflexivity.
Qed.
Lemma tokch_not_comma a : forall_char tokch a = true -> forall_char (fun c => negb (Ascii.eqb "," c)) a = true.
Proof.
  apply forall_char_impl. intros c Hc. unfold tokch, is_sep in Hc.
  apply negb_true_iff, orb_false_iff in Hc. destruct Hc as [_ Hc]. rewrite Ascii.eqb_sym, Hc. reflexivity.
Qed.
Lemma nonempty_app a h : nonempty a = true -> nonempty (a ++ h) = true.
Proof. destruct a; [discriminate | reflexivity]. Qed.

(* a token followed by the end or by a separator is the first item *)
Lemma attr_split_token a r : token a -> (r = "" \/ exists c r', r = String c r' /\ is_sep c = true) ->
  attr_split (a ++ r) = a :: attr_split r.
Proof.
  intros [Hne Htok] Hr. rewrite !attr_split_unfold.
  rewrite split_on_app_tok by (apply tokch_not_ws; exact Htok).
  destruct (split_on is_ws r) as [|h t] eqn:E; [exfalso; eapply split_on_nonnil; eauto|].
  cbn [filter]. rewrite nonempty_app by exact Hne. cbn [flat_map].
  assert (Hc : fcomma (a ++ h) = a :: fcomma h \/ (h = "" /\ fcomma (a ++ h) = [a])).
  { unfold fcomma, split_char. rewrite split_on_app_tok by (apply tokch_not_comma; exact Htok).
    destruct Hr as [->|(c & r' & -> & Hc)].
    - cbn in E. inversion E; subst. right. split; [reflexivity|]. cbn. rewrite app_nil_r_str. rewrite Hne. reflexivity.
    - unfold is_sep in Hc. destruct (is_ws c) eqn:W.
      + cbn in E. rewrite W in E. inversion E; subst. right. split; [reflexivity|]. cbn. rewrite app_nil_r_str, Hne. reflexivity.
      + cbn in Hc. apply Ascii.eqb_eq in Hc; subst c. cbn in E. rewrite W in E.
        destruct (split_on is_ws r') as [|h2 t2] eqn:E2; [exfalso; eapply split_on_nonnil; eauto|].
        inversion E; subst. left. cbn [split_on Ascii.eqb Bool.eqb]. cbn.
        rewrite app_nil_r_str, Hne. reflexivity. }
  destruct Hc as [Hc|[-> Hc]]; rewrite Hc.
  - destruct h as [|hc hr].
    + cbn. reflexivity.
    + cbn [nonempty filter flat_map app]. reflexivity.
  - cbn. reflexivity.
Qed.

Theorem attr_split_two a sep b : token a -> sepstr sep -> token b -> attr_split (a ++ sep ++ b) = [a; b].
Proof.
  intros Ha [Hsne Hsep] Hb.
  rewrite attr_split_token; [|exact Ha|].
  - rewrite attr_split_sepstr by exact Hsep.
    rewrite <- (app_nil_r_str b) at 1. rewrite attr_split_token; [reflexivity | exact Hb | now left].
  - right. destruct sep as [|c s]; [discriminate|]. cbn in Hsep. apply andb_true_iff in Hsep.
    exists c, (s ++ b). split; [reflexivity | tauto].
Qed.
Theorem attr_split_one a : token a -> attr_split a = [a].
Proof. intros Ha. rewrite <- (app_nil_r_str a) at 1. rewrite attr_split_token; [reflexivity | exact Ha | now left]. Qed.

(* split_compound_attr: one value or two, any separator *)
Definition plain (s : string) : Prop := token s /\ starts_ref s = false.
Lemma starts_ref_app a r : nonempty a = true -> starts_ref (a ++ r) = starts_ref a.
Proof. destruct a; [discriminate | reflexivity]. Qed.
Theorem split_compound_two a sep b : plain a -> sepstr sep -> token b ->
  split_compound_attr (a ++ sep ++ b) = (a, b).
Proof.
  intros [Ha Hr] Hs Hb. unfold split_compound_attr.
  rewrite starts_ref_app by (apply Ha). rewrite Hr. rewrite attr_split_two by assumption. reflexivity.
Qed.
Theorem split_compound_one a : plain a -> split_compound_attr a = (a, a).
Proof.
  intros [Ha Hr]. unfold split_compound_attr. rewrite Hr, attr_split_one by assumption. reflexivity.
Qed.
