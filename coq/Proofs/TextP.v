(* Lemmas about shape text: text_string, lines, the alignment table. *)
From Coq Require Import String Ascii List Bool Arith Lia QArith.
From SvgdxModel Require Import Base.Str Base.Res Num.NumOps Gen.Tables Model.Types Model.Geom Model.Position
  Model.Element Model.Text Model.Xml Proofs.StrP Proofs.XmlP.
Import ListNotations.
Open Scope string_scope.

Definition not_bsl (c : ascii) : bool := negb (Ascii.eqb c bsl).
Definition bsn : string := String bsl "n".            (* backslash n *)

Lemma text_string_go_plain : forall s, forall_char not_bsl s = true -> text_string_go s false = s.
Proof.
  induction s as [|c s IH]; intros H; [reflexivity|]. cbn in H. apply andb_true_iff in H as [Hc Hs].
  apply negb_true_iff in Hc. cbn [text_string_go]. rewrite Hc, (IH Hs). reflexivity.
Qed.
(* ordinary text (no backslash) is used verbatim *)
Lemma text_string_plain s : forall_char not_bsl s = true -> text_string s = s.
Proof. apply text_string_go_plain. Qed.

Lemma text_string_go_app : forall a r, forall_char not_bsl a = true ->
  text_string_go (a ++ r) false = a ++ text_string_go r false.
Proof.
  induction a as [|c a IH]; intros r H; [reflexivity|]. cbn in H. apply andb_true_iff in H as [Hc Ha].
  apply negb_true_iff in Hc. cbn [append text_string_go]. rewrite Hc, (IH _ Ha). reflexivity.
Qed.
(* backslash-n after ordinary text is a line break; the scan continues afresh behind it *)
Lemma text_string_newline a r : forall_char not_bsl a = true ->
  text_string (a ++ bsn ++ r) = a ++ String nl (text_string r).
Proof.
  intros H. unfold text_string. rewrite text_string_go_app by exact H. reflexivity.
Qed.
(* backslash-backslash-n is the literal two characters backslash n *)
Lemma text_string_escaped a r : forall_char not_bsl a = true ->
  text_string (a ++ String bsl bsn ++ r) = a ++ bsn ++ text_string r.
Proof.
  intros H. unfold text_string. rewrite text_string_go_app by exact H. reflexivity.
Qed.

(* lines: a text without line feed is one line; a line feed ends a line *)
Definition not_nlcr (c : ascii) : bool := negb (Ascii.eqb c nl || Nat.eqb (byte_of c) 13)%bool.
Lemma nonempty_srev r : nonempty (srev r) = nonempty r.
Proof. destruct r as [|c r]; [reflexivity|]. rewrite srev_cons. cbn [nonempty]. now apply nonempty_app_r. Qed.
Lemma lines_go_plain : forall s rcur, forall_char not_nlcr s = true ->
  lines_go s rcur = if nonempty (srev rcur ++ s) then [srev rcur ++ s] else [].
Proof.
  induction s as [|c s IH]; intros rcur H.
  - cbn [lines_go]. now rewrite app_nil_r_str, nonempty_srev.
  - cbn in H. apply andb_true_iff in H as [Hc Hs]. unfold not_nlcr in Hc. apply negb_true_iff, orb_false_iff in Hc as [Hc _].
    cbn [lines_go]. rewrite Hc, (IH _ Hs), srev_cons, app_assoc_str. reflexivity.
Qed.
Lemma lines_single s : forall_char not_nlcr s = true -> nonempty s = true -> lines s = [s].
Proof. intros H Hn. unfold lines. rewrite lines_go_plain by exact H. cbn. now rewrite Hn. Qed.
Lemma strip_cr_rev_id r : forall_char not_nlcr r = true -> strip_cr_rev r = r.
Proof.
  destruct r as [|c r]; [reflexivity|]. cbn. intros H. apply andb_true_iff in H as [Hc _].
  unfold not_nlcr in Hc. apply negb_true_iff, orb_false_iff in Hc as [_ Hc]. now rewrite Hc.
Qed.
Lemma lines_go_break : forall a rcur r, forall_char not_nlcr a = true -> forall_char not_nlcr rcur = true ->
  lines_go (a ++ String nl r) rcur = (srev rcur ++ a) :: lines_go r "".
Proof.
  induction a as [|c a IH]; intros rcur r Ha Hr.
  - cbn [append lines_go]. rewrite Ascii.eqb_refl, strip_cr_rev_id by exact Hr. now rewrite app_nil_r_str.
  - cbn in Ha. apply andb_true_iff in Ha as [Hc Ha]. pose proof Hc as Hc'. unfold not_nlcr in Hc'.
    apply negb_true_iff, orb_false_iff in Hc' as [Hc' _].
    cbn [append lines_go]. rewrite Hc', IH; [|exact Ha | cbn; now rewrite Hc, Hr].
    now rewrite srev_cons, app_assoc_str.
Qed.
(* one tspan per line: a line feed ends a line, the rest is split in the same way *)
Lemma lines_break a r : forall_char not_nlcr a = true -> lines (a ++ String nl r) = a :: lines r.
Proof. intros H. unfold lines. now rewrite lines_go_break. Qed.

(* ---- the alignment table (GENERATED from get_text_position): inside text moves towards the centre and is
   aligned to the side it is at; outside text moves away and is aligned to the opposite side ---- *)
Definition align_spec : list (string * ((string * string * string * string) * (string * bool * bool))) :=
  [("top", (("d-text-top", "d-text-bottom", "d-text-top-vertical", "d-text-bottom-vertical"), ("dy", true, false)));
   ("bottom", (("d-text-bottom", "d-text-top", "d-text-bottom-vertical", "d-text-top-vertical"), ("dy", false, true)));
   ("left", (("d-text-left", "d-text-right", "d-text-left-vertical", "d-text-right-vertical"), ("dx", true, false)));
   ("right", (("d-text-right", "d-text-left", "d-text-right-vertical", "d-text-left-vertical"), ("dx", false, true)))].
Lemma text_align_table_spec : text_align_table = align_spec.
Proof. reflexivity. Qed.

Local Open Scope Q_scope.
Lemma apply_side_spec (outside vertical : bool) (off dx dy : Q) cls :
  apply_side QOps "top" outside vertical off (cls, dx, dy) =
    ((cls ++ [if outside then (if vertical then "d-text-bottom-vertical" else "d-text-bottom") else (if vertical then "d-text-top-vertical" else "d-text-top")])%list,
     dx, dy + (if outside then - off else off)) /\
  apply_side QOps "bottom" outside vertical off (cls, dx, dy) =
    ((cls ++ [if outside then (if vertical then "d-text-top-vertical" else "d-text-top") else (if vertical then "d-text-bottom-vertical" else "d-text-bottom")])%list,
     dx, dy + (if outside then off else - off)) /\
  apply_side QOps "left" outside vertical off (cls, dx, dy) =
    ((cls ++ [if outside then (if vertical then "d-text-right-vertical" else "d-text-right") else (if vertical then "d-text-left-vertical" else "d-text-left")])%list,
     dx + (if outside then - off else off), dy) /\
  apply_side QOps "right" outside vertical off (cls, dx, dy) =
    ((cls ++ [if outside then (if vertical then "d-text-left-vertical" else "d-text-left") else (if vertical then "d-text-right-vertical" else "d-text-right")])%list,
     dx + (if outside then off else - off), dy).
Proof. destruct outside, vertical; repeat split; reflexivity. Qed.
