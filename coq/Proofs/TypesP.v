(* Lemmas about the AttrMap model: keys stay unique under every operation; get/set/pop laws. *)
From Coq Require Import String Ascii List Bool Arith Lia Permutation.
From SvgdxModel Require Import Base.Str Base.Res Gen.Tables Model.Types.
Import ListNotations.
Open Scope string_scope.

Definition keys (a : attrs) : list string := map fst a.

Lemma ins_sorted_perm kv a : Permutation (kv :: a) (ins_sorted kv a).
Proof.
  induction a as [|h r IH]; cbn; [reflexivity|].
  destruct (Nat.leb _ _); [reflexivity|].
  rewrite perm_swap. apply perm_skip. exact IH.
Qed.
Lemma reorder_perm a : Permutation a (reorder a).
Proof.
  induction a as [|h r IH]; cbn; [reflexivity|].
  unfold reorder in *. cbn. rewrite <- ins_sorted_perm. apply perm_skip. exact IH.
Qed.
Lemma keys_reorder_perm a : Permutation (keys a) (keys (reorder a)).
Proof. unfold keys. apply Permutation_map. apply reorder_perm. Qed.
Lemma nodup_reorder a : NoDup (keys a) -> NoDup (keys (reorder a)).
Proof. intros H. eapply Permutation_NoDup; [apply keys_reorder_perm | exact H]. Qed.

Lemma get_in_keys a k v : get a k = Some v -> In k (keys a).
Proof.
  induction a as [|[k' v'] r IH]; cbn; [discriminate|].
  destruct (String.eqb k k') eqn:E; [apply String.eqb_eq in E; subst; auto|]. intros H; right; auto.
Qed.
Lemma get_none_notin a k : get a k = None <-> ~ In k (keys a).
Proof.
  induction a as [|[k' v'] r IH]; cbn; [tauto|].
  destruct (String.eqb k k') eqn:E.
  - apply String.eqb_eq in E; subst. split; [discriminate | intros H; exfalso; apply H; auto].
  - apply String.eqb_neq in E. rewrite IH. split; [intros H [H1|H1]; [congruence | auto] | intros H H1; apply H; auto].
Qed.
Lemma has_true_in a k : has a k = true <-> In k (keys a).
Proof.
  unfold has. destruct (get a k) eqn:E.
  - split; [intros _; eapply get_in_keys; eauto | reflexivity].
  - split; [discriminate | intros H; apply get_none_notin in E; contradiction].
Qed.

(* get is invariant under permutation when keys are unique *)
Lemma get_perm a b k : NoDup (keys a) -> Permutation a b -> get a k = get b k.
Proof.
  intros Hnd Hp. induction Hp as [| [k1 v1] l l' Hp IH | [k1 v1] [k2 v2] l | l l' l'' Hp1 IH1 Hp2 IH2].
  - reflexivity.
  - cbn in *. inversion Hnd; subst. destruct (String.eqb k k1); [reflexivity | auto].
  - cbn in *. inversion Hnd as [|? ? Hn1 Hnd']; subst. inversion Hnd' as [|? ? Hn2 Hnd'']; subst.
    destruct (String.eqb k k2) eqn:E2, (String.eqb k k1) eqn:E1; try reflexivity.
    apply String.eqb_eq in E1, E2; subst. exfalso; apply Hn1; cbn; auto.
  - rewrite IH1 by assumption. apply IH2.
    eapply Permutation_NoDup; [apply Permutation_map; exact Hp1 | exact Hnd].
Qed.
Lemma get_reorder a k : NoDup (keys a) -> get (reorder a) k = get a k.
Proof. intros H. symmetry. apply get_perm; [exact H | apply reorder_perm]. Qed.

Lemma keys_upd a k v : keys (upd a k v) = keys a.
Proof.
  unfold keys. induction a as [|[k' v'] r IH]; cbn; [reflexivity|].
  destruct (String.eqb k k'); cbn; [reflexivity | now rewrite IH].
Qed.
Lemma get_upd_same a k v : In k (keys a) -> get (upd a k v) k = Some v.
Proof.
  induction a as [|[k' v'] r IH]; cbn; [tauto|].
  destruct (String.eqb k k') eqn:E; cbn; rewrite E; [reflexivity|].
  intros [H|H]; [apply String.eqb_neq in E; congruence | auto].
Qed.
Lemma get_upd_other a k v k2 : k2 <> k -> get (upd a k v) k2 = get a k2.
Proof.
  intros Hne. induction a as [|[k' v'] r IH]; cbn; [reflexivity|].
  destruct (String.eqb k k') eqn:E; cbn.
  - apply String.eqb_eq in E; subst. destruct (String.eqb k2 k') eqn:E2; [apply String.eqb_eq in E2; congruence | reflexivity].
  - destruct (String.eqb k2 k'); [reflexivity | exact IH].
Qed.
Lemma get_app a b k : get (a ++ b)%list k = match get a k with Some v => Some v | None => get b k end.
Proof. induction a as [|[k' v'] r IH]; cbn; [reflexivity|]. destruct (String.eqb k k'); auto. Qed.

Lemma NoDup_app_nodup_single (l : list string) x : NoDup l -> ~ In x l -> NoDup (l ++ [x]).
Proof.
  induction l as [|h r IH]; cbn; intros H Hn; [constructor; [tauto | constructor]|].
  inversion H; subst. constructor.
  - rewrite in_app_iff. cbn. intros [H1|[H1|[]]]; [contradiction | subst; apply Hn; auto].
  - apply IH; [assumption | tauto].
Qed.

Lemma nodup_set a k v : NoDup (keys a) -> NoDup (keys (set a k v)).
Proof.
  intros H. unfold set. apply nodup_reorder.
  destruct (has a k) eqn:E.
  - rewrite keys_upd. exact H.
  - unfold keys. rewrite map_app. cbn. apply NoDup_app_nodup_single; [exact H|].
    intros Hin. apply has_true_in in Hin. congruence.
Qed.
Lemma get_set_same a k v : NoDup (keys a) -> get (set a k v) k = Some v.
Proof.
  intros H. unfold set. destruct (has a k) eqn:E.
  - rewrite get_reorder by (rewrite keys_upd; exact H). apply get_upd_same. now apply has_true_in.
  - rewrite get_reorder.
    + rewrite get_app. unfold has in E. destruct (get a k); [discriminate|]. cbn. now rewrite String.eqb_refl.
    + unfold keys. rewrite map_app. cbn. apply NoDup_app_nodup_single; [exact H|].
      intros Hin. apply has_true_in in Hin. congruence.
Qed.
Lemma get_set_other a k v k2 : NoDup (keys a) -> k2 <> k -> get (set a k v) k2 = get a k2.
Proof.
  intros H Hne. unfold set. destruct (has a k) eqn:E.
  - rewrite get_reorder by (rewrite keys_upd; exact H). now apply get_upd_other.
  - rewrite get_reorder.
    + rewrite get_app. destruct (get a k2); [reflexivity|]. cbn.
      destruct (String.eqb k2 k) eqn:E2; [apply String.eqb_eq in E2; congruence | reflexivity].
    + unfold keys. rewrite map_app. cbn. apply NoDup_app_nodup_single; [exact H|].
      intros Hin. apply has_true_in in Hin. congruence.
Qed.

Lemma keys_pop_incl a k : incl (keys (pop a k)) (keys a).
Proof.
  induction a as [|[k' v'] r IH]; cbn; [apply incl_refl|].
  destruct (String.eqb k k'); cbn; [apply incl_tl, incl_refl|].
  intros x [H|H]; [left; auto | right; auto].
Qed.
Lemma nodup_pop a k : NoDup (keys a) -> NoDup (keys (pop a k)).
Proof.
  induction a as [|[k' v'] r IH]; cbn; intros H; [constructor|].
  inversion H as [|? ? Hn Hnd]; subst. destruct (String.eqb k k'); cbn; [exact Hnd|].
  constructor; [intros Hin; apply Hn; eapply keys_pop_incl; eauto | auto].
Qed.
Lemma get_pop_same a k : NoDup (keys a) -> get (pop a k) k = None.
Proof.
  induction a as [|[k' v'] r IH]; cbn; intros H; [reflexivity|].
  inversion H as [|? ? Hn Hnd]; subst. destruct (String.eqb k k') eqn:E; cbn.
  - apply String.eqb_eq in E; subst. now apply get_none_notin.
  - rewrite E. auto.
Qed.
Lemma get_pop_other a k k2 : k2 <> k -> get (pop a k) k2 = get a k2.
Proof.
  intros Hne. induction a as [|[k' v'] r IH]; cbn; [reflexivity|].
  destruct (String.eqb k k') eqn:E; cbn.
  - apply String.eqb_eq in E; subst. destruct (String.eqb k2 k') eqn:E2; [apply String.eqb_eq in E2; congruence | reflexivity].
  - destruct (String.eqb k2 k'); auto.
Qed.

Lemma nodup_remove_attrs ks : forall a, NoDup (keys a) -> NoDup (keys (remove_attrs a ks)).
Proof. unfold remove_attrs. induction ks as [|k r IH]; cbn; intros a H; [exact H|]. apply IH. now apply nodup_pop. Qed.
Lemma get_remove_attrs_in ks : forall a k, NoDup (keys a) -> In k ks -> get (remove_attrs a ks) k = None.
Proof.
  unfold remove_attrs. induction ks as [|k0 r IH]; cbn; intros a k H Hin; [tauto|].
  destruct (string_dec k k0) as [->|Hne].
  - destruct (in_dec string_dec k0 r) as [Hr|Hr]; [apply IH; [now apply nodup_pop | exact Hr]|].
    assert (G : forall l b, ~ In k0 l -> get (fold_left pop l b) k0 = get b k0).
    { induction l as [|x l IHl]; cbn; intros b Hn; [reflexivity|].
      rewrite IHl by tauto. apply get_pop_other. intros ->; apply Hn; auto. }
    rewrite G by exact Hr. now apply get_pop_same.
  - destruct Hin as [->|Hin]; [congruence|]. apply IH; [now apply nodup_pop | exact Hin].
Qed.
Lemma get_remove_attrs_notin ks : forall a k, ~ In k ks -> get (remove_attrs a ks) k = get a k.
Proof.
  unfold remove_attrs. induction ks as [|k0 r IH]; cbn; intros a k Hn; [reflexivity|].
  rewrite IH by tauto. apply get_pop_other. intros ->; apply Hn; auto.
Qed.

Lemma nodup_set_first a k v : NoDup (keys a) -> NoDup (keys (set_first a k v)).
Proof. intros H. unfold set_first. destruct (has a k); [exact H | now apply nodup_set]. Qed.

(* every sequence of AttrMap operations keeps keys unique *)
Inductive op := OSet (k v : string) | OSetFirst (k v : string) | OPop (k : string) | OUpdate (b : attrs).
Definition apply_op (a : attrs) (o : op) : attrs :=
  match o with
  | OSet k v => set a k v | OSetFirst k v => set_first a k v | OPop k => pop a k | OUpdate b => update a b
  end.
Lemma nodup_update b : forall a, NoDup (keys a) -> NoDup (keys (update a b)).
Proof. unfold update. induction b as [|[k v] r IH]; cbn; intros a H; [exact H|]. apply IH. now apply nodup_set. Qed.
Lemma attrmap_keys_nodup_from ops : forall a, NoDup (keys a) -> NoDup (keys (fold_left apply_op ops a)).
Proof.
  induction ops as [|o r IH]; cbn; intros a H; [exact H|]. apply IH.
  destruct o; cbn; auto using nodup_set, nodup_set_first, nodup_pop, nodup_update.
Qed.
