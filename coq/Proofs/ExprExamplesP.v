(* A concrete, non-trivial instance of the hypotheses of the C14 theorems (exact rationals): variables with an
   indirection chain, a tree over every kind of node, malformed inputs, the nesting guard. *)
From Coq Require Import String Ascii List Bool Arith ZArith QArith Lia.
From SvgdxModel Require Import Base.Str Base.Res Num.NumOps Num.XOps Model.Pcg Gen.Tables Model.Funcs Model.Expr
  Model.ExprSpec Model.ExprRun Proofs.ExprP Proofs.ExprPrintP Proofs.ExprTopP.
Import ListNotations.
Open Scope string_scope.

Definition ex_vars : list (string * string) := [("a", "3"); ("b", "$a * 2"); ("c1", "$c2 + 1"); ("c2", "$c1")].
Definition ex_getvar := hook_getvar ex_vars.
Definition ex_vbound := hook_vbound ex_vars.
Definition ex_elref : string -> res Q := fun _ => Err EReference.
Definition ex_st : est QX := Build_est QX (pcg_seed 0) 0%nat.
Local Notation value := (@value QOps).
Local Notation SNum := (@SNum QOps).
Local Notation VList := (@VList QOps).
Local Notation VNum := (@VNum QOps).
Local Notation ANum := (@ANum QOps).
Local Notation TNum := (@TNum QOps).
Local Notation TOpen := (@TOpen QOps).
Local Notation TClose := (@TClose QOps).
Local Notation TAdd := (@TAdd QOps).
Local Notation TSym := (@TSym QOps).
Local Notation TVar := (@TVar QOps).
Local Notation ACons := (@ACons QOps).
Local Notation ANil := (@ANil QOps).

Lemma ex_ctx : ctx_ok QX ex_getvar ex_elref ex_vbound.
Proof.
  apply list_ctx_ok; [exact q_le_total | intros v s; discriminate | intros v; discriminate].
Qed.

Definition q3 : Q := 3 # 1.
Definition rho0 : string -> option value := fun _ => None.
Definition rho_a : string -> option value := fun v => if String.eqb v "a" then Some (VList [SNum q3]) else None.
Definition rho_ab : string -> option value :=
  fun v => if String.eqb v "a" then Some (VList [SNum q3])
           else if String.eqb v "b" then Some (VList [SNum (Qmult q3 (2 # 1))]) else None.
Definition ex_vd : string -> nat := fun v => if String.eqb v "a" then 1%nat else 3%nat.

Lemma vars_ok_empty cv vd : vars_ok QX ex_getvar ex_elref cv rho0 vd.
Proof. intros v x H. discriminate. Qed.

Lemma lookup_a cv : ~ In "a" cv -> forall d st rest, (d + 1 <= max_expr_depth)%nat ->
  ev (fun f => run QX ex_getvar ex_elref f (CLookup "a") cv d rest st) (Ok (VList [SNum q3], rest, st)).
Proof.
  intros Hn d st rest Hd.
  pose proof (lookup_print QX ex_getvar ex_elref cv rho0 ex_vd "a" "3" (ACons (ANum q3) ANil) [SNum q3]) as L.
  assert (H1 : ex_getvar "a" = Some "3") by (vm_compute; reflexivity).
  assert (H2 : tokenize QX "3" = Ok (@prs QOps (ACons (ANum q3) ANil))) by (vm_compute; reflexivity).
  assert (H3 : forall st0 : est QX, denote_list QX rho0 (ACons (ANum q3) ANil) st0 = Ok ([SNum q3], st0))
    by (intros st0; reflexivity).
  exact (L H1 H2 ltac:(discriminate) Hn (vars_ok_empty _ _) H3 d st rest Hd).
Qed.
Lemma vars_ok_a cv : ~ In "a" cv -> vars_ok QX ex_getvar ex_elref cv rho_a ex_vd.
Proof.
  intros Hn v x H. unfold rho_a in H. destruct (String.eqb v "a") eqn:E; [|discriminate].
  apply String.eqb_eq in E. subst v. inversion H; subst x. intros d st rest Hd. exact (lookup_a cv Hn d st rest Hd).
Qed.
Definition b_tree : @asts QOps := ACons (ABin BMul (AVar "a") (ANum (2 # 1))) ANil.
Lemma vars_ok_ab : vars_ok QX ex_getvar ex_elref [] rho_ab ex_vd.
Proof.
  intros v x H. unfold rho_ab in H. destruct (String.eqb v "a") eqn:Ea.
  - apply String.eqb_eq in Ea. subst v. inversion H; subst x. intros d st rest Hd.
    exact (lookup_a [] (fun F => F) d st rest Hd).
  - destruct (String.eqb v "b") eqn:Eb; [|discriminate]. apply String.eqb_eq in Eb. subst v. inversion H; subst x.
    intros d st rest Hd.
    pose proof (lookup_print QX ex_getvar ex_elref [] rho_a ex_vd "b" "$a * 2" b_tree [SNum (Qmult q3 (2 # 1))]) as L.
    assert (H1 : ex_getvar "b" = Some "$a * 2") by (vm_compute; reflexivity).
    assert (H2 : tokenize QX "$a * 2" = Ok (prs b_tree)) by (vm_compute; reflexivity).
    assert (H3 : forall st0 : est QX, denote_list QX rho_a b_tree st0 = Ok ([SNum (Qmult q3 (2 # 1))], st0))
      by (intros st0; reflexivity).
    assert (Hna : ~ In "a" ["b"]) by (intros [E|[]]; discriminate).
    exact (L H1 H2 ltac:(discriminate) (fun F => F) (vars_ok_a _ Hna) H3 d st rest Hd).
Qed.

(* ($b + 1) * 2 lt 20 and not(0) *)
Definition ex_tree : @ast QOps :=
  ALog OAnd
    (ACmp OLt (ABin BMul (AList (ACons (ABin BAdd (AVar "b") (ANum (1 # 1))) ANil)) (ANum (2 # 1))) (ANum (20 # 1)))
    (ACall "not" (ACons (ANum (0 # 1)) ANil)).
Definition ex_text : string := "($b + 1) * 2 lt 20 and not(0)".

Lemma ex_print_is_text : tokenize QX ex_text = Ok (pr 0 ex_tree).
Proof. reflexivity. Qed.
Lemma ex_denote : denote QX rho_ab ex_tree ex_st = Ok (VNum (1 # 1), ex_st).
Proof. reflexivity. Qed.
Lemma ex_depth : (pdepth ex_vd ex_tree <= max_expr_depth)%nat.
Proof. vm_compute. repeat constructor. Qed.
(* through the theorem, not by running the evaluator *)
Lemma ex_eval_print : evaluate QX ex_getvar ex_elref ex_vbound (pr 0 ex_tree) ex_st = Ok (VList [SNum (1 # 1)], ex_st).
Proof. exact (eval_print_expr QX ex_getvar ex_elref ex_vbound ex_ctx rho_ab ex_vd vars_ok_ab ex_tree ex_st _ _ ex_denote ex_depth). Qed.

(* results shown as text, so that they can be computed by the VM *)
Definition show {A} (f : A -> string) (r : res (A * est QX)) : string :=
  match r with
  | Ok (a, _) => "OK " ++ f a | Err k => "ERR " ++ errkind_name k | Panic _ => "PANIC" | OutOfFuel => "OUTOFFUEL" end.
Definition show_value (v : value) : string := value_display QX v.
(* the whole attribute entry point: text -> tokens -> value -> text *)
Lemma ex_eval_attr :
  show (fun s => s) (eval_attr QX ex_getvar ex_elref ex_vbound ("v={{$b + 1}} {{" ++ ex_text ++ "}}") ex_st) = "OK v=7 1".
Proof. vm_compute. reflexivity. Qed.

(* malformed inputs of each class *)
Lemma ex_unbalanced : exists k, evaluate QX ex_getvar ex_elref ex_vbound [TOpen; TNum (1 # 1); TAdd; TNum (2 # 1)] ex_st = Err k.
Proof. apply (unbalanced_rejected QX ex_getvar ex_elref ex_vbound ex_ctx). discriminate. Qed.
Lemma ex_unknown_function : exists k, evaluate QX ex_getvar ex_elref ex_vbound [TSym "sine"; TOpen; TNum (1 # 1); TClose] ex_st = Err k.
Proof.
  apply (unknown_function_rejected QX ex_getvar ex_elref ex_vbound ex_ctx _ _ "sine"); [left; reflexivity | reflexivity | reflexivity |].
  intros fn. vm_compute. discriminate.
Qed.
Lemma ex_undefined_variable : exists k, evaluate QX ex_getvar ex_elref ex_vbound [TNum (1 # 1); TAdd; TVar "zz"] ex_st = Err k.
Proof. apply (undefined_variable_rejected QX ex_getvar ex_elref ex_vbound ex_ctx _ _ "zz"); [right; right; left; reflexivity | reflexivity]. Qed.
Lemma ex_wrong_arity : exists k, eval_function QX FClamp (VList [SNum (1 # 1); SNum (2 # 1)]) ex_st = Err k.
Proof. apply (arity_rejected QX "Clamp" 3 FClamp); [vm_compute; tauto | reflexivity | cbn; discriminate]. Qed.
Lemma ex_on_cycle : on_cycle QX ex_getvar "c1".
Proof.
  exists "c2". split.
  - exists "$c2 + 1", [TVar "c2"; TAdd; TNum (1 # 1)]. split; [reflexivity|]. split; [reflexivity | left; reflexivity].
  - apply reach_step with (u := "c1"); [|apply reach_refl].
    exists "$c1", [TVar "c1"]. split; [reflexivity|]. split; [reflexivity | left; reflexivity].
Qed.
Lemma ex_cycle_rejected : exists k, evaluate QX ex_getvar ex_elref ex_vbound [TNum (2 # 1); TAdd; TVar "c1"] ex_st = Err k.
Proof. apply (circular_rejected QX ex_getvar ex_elref ex_vbound ex_ctx _ _ "c1"); [right; right; left; reflexivity | exact ex_on_cycle]. Qed.
Lemma ex_two_cycle : show (fun s => s) (eval_attr QX ex_getvar ex_elref ex_vbound "{{$c1}}" ex_st) = "ERR CircularRefError".
Proof. vm_compute. reflexivity. Qed.

(* the nesting guard (generated constant max_expr_depth, 100 today): one pair of parentheses fewer than the guard
   around a literal evaluates, as many pairs as the guard are refused *)
Definition nested (n : nat) : list (@token QOps) := (repeat TOpen n ++ [TNum (1 # 1)] ++ repeat TClose n)%list.
Lemma ex_depth_ok : show show_value (evaluate QX ex_getvar ex_elref ex_vbound (nested (max_expr_depth - 1)) ex_st) = "OK 1".
Proof. vm_compute. reflexivity. Qed.
Lemma ex_depth_refused : show show_value (evaluate QX ex_getvar ex_elref ex_vbound (nested max_expr_depth) ex_st) = "ERR ParseError".
Proof. vm_compute. reflexivity. Qed.
