(* Lemmas about the front-end state machine (Model/Front.v), for all transforms T, all name
   spaces (canon), all file-identity relations (same), all file systems, all histories. *)
From Coq Require Import String Ascii List Bool Arith Lia.
From SvgdxModel Require Import Base.Str Gen.Tables Model.Front.
Import ListNotations.
Open Scope string_scope.

(* facts read off the regenerated tables: if the code's protocol / constants change these stop
   being provable and every theorem below that uses them breaks *)
Lemma via_temp : front_output_via_temp = true.            Proof. reflexivity. Qed.
Lemma needs_existing : cli_same_file_needs_existing_output = true. Proof. reflexivity. Qed.
Lemma err_status_400 : server_err_status = 400.           Proof. reflexivity. Qed.
Lemma err_ctype_plain : server_err_ctype = "text/plain".  Proof. reflexivity. Qed.
Lemma ok_status_200 : server_ok_status = 200.             Proof. reflexivity. Qed.
Lemma ok_ctype_svg : server_ok_ctype = "image/svg+xml".   Proof. reflexivity. Qed.
Lemma err_ne_ok : Nat.eqb server_err_status server_ok_status = false. Proof. reflexivity. Qed.
Lemma request_fields : server_request_fields = [("add_metadata", "bool")] /\
                       server_config_sets = [("add_metadata", "add_metadata")].
Proof. split; reflexivity. Qed.
Lemma empty_body : format1 server_err_format server_empty_msg = "Error: Empty response". Proof. reflexivity. Qed.
Lemma refusal_dbg : dbg_variant_str err_variant_message cli_same_file_msg =
  "MessageError(""Output path must not refer to the same file as the input file."")".
Proof. reflexivity. Qed.

Section FrontP.
  Context {cfg : Type}.
  Context (T : bytes -> cfg -> tres) (http_cfg : bool -> cfg).
  Context (canon : string -> option string) (same : string -> string -> bool) (enoent_dbg : bytes).

  Notation request := (@request cfg).
  Notation step := (step T http_cfg canon same enoent_dbg).
  Notation run := (run T http_cfg canon same enoent_dbg).
  Notation keep_ok := (keep_ok T http_cfg canon same enoent_dbg).
  Notation cli_step := (cli_step T canon same enoent_dbg).
  Notation transform_file := (transform_file T canon same enoent_dbg).
  Notation from_args_check := (from_args_check canon enoent_dbg).
  Notation read := (read canon).
  Notation exists_ := (exists_ canon).
  Notation canonicalize := (canonicalize canon).
  Notation carries := (carries http_cfg canon).
  Notation delivered := (delivered canon).
  Notation k11_class := (k11_class T http_cfg).
  Notation cli_blocked := (cli_blocked canon enoent_dbg).
  Notation agree_on := (agree_on canon).
  Notation write_c := (write_c same).

  Lemma cli_fail_failed out g : failed (cli_fail out g) = true.
  Proof. reflexivity. Qed.
  Lemma cli_ok_not_failed out : failed (cli_ok out) = false.
  Proof. reflexivity. Qed.

  (* ------------------------------------------------------------ failures leave no damage *)
  Lemma transform_file_failed_fs f file output stdin c :
    failed (snd (transform_file f file output stdin c)) = true ->
    fst (transform_file f file output stdin c) = f.
  Proof.
    unfold transform_file. rewrite via_temp.
    destruct (if is_stdio file then Some stdin else read f file) as [inp|]; [|reflexivity].
    destruct (is_stdio output); [reflexivity|].
    destruct (T inp c) as [o|p d g]; [|reflexivity].
    cbn [written]. destruct (copy_temp canon same _ output) as [x'|]; [|reflexivity].
    cbn [snd]. rewrite cli_ok_not_failed. discriminate.
  Qed.

  Lemma step_failed_fs f r : failed (snd (step f r)) = true -> fst (step f r) = f.
  Proof.
    destruct r as [inp c|inp c|file output stdin c|inp meta]; cbn [step fst snd]; try reflexivity.
    unfold cli_step. destruct (from_args_check f file output); [reflexivity|].
    apply transform_file_failed_fs.
  Qed.

  (* requests that involve no file never change the file system *)
  Lemma step_pure_fs f r : touches_fs r = false -> fst (step f r) = f.
  Proof.
    destruct r as [inp c|inp c|file output stdin c|inp meta]; cbn [step fst touches_fs]; try reflexivity.
    intro H. apply negb_false_iff, andb_true_iff in H. destruct H as [Hi Ho].
    unfold cli_step, from_args_check. rewrite Hi. cbn [negb andb].
    unfold transform_file. rewrite Hi, Ho. destruct (T stdin c); reflexivity.
  Qed.

  Lemma run_cons f r t :
    run f (r :: t) = (fst (run (fst (step f r)) t), snd (step f r) :: snd (run (fst (step f r)) t)).
  Proof. cbn [Front.run]. destruct (step f r) as [f1 o]. cbn [fst snd]. destruct (run f1 t). reflexivity. Qed.

  Lemma keep_ok_cons f r t :
    keep_ok f (r :: t) = if failed (snd (step f r)) then keep_ok (fst (step f r)) t
                         else r :: keep_ok (fst (step f r)) t.
  Proof. cbn [Front.keep_ok]. destruct (step f r) as [f1 o]. reflexivity. Qed.

  (* the final file system of ANY history is the one its successful requests alone produce,
     and those requests observe exactly what they observed in the full history *)
  Lemma run_keep_ok : forall h f,
    fst (run f (keep_ok f h)) = fst (run f h) /\
    snd (run f (keep_ok f h)) = filter (fun o => negb (failed o)) (snd (run f h)).
  Proof.
    induction h as [|r t IH]; intro f; [split; reflexivity|].
    rewrite keep_ok_cons, (run_cons f r t). cbn [fst snd filter].
    destruct (failed (snd (step f r))) eqn:F.
    - rewrite (step_failed_fs f r F). cbn [negb]. apply IH.
    - rewrite run_cons. cbn [fst snd negb]. destruct (IH (fst (step f r))) as [A B].
      rewrite A, B. split; reflexivity.
  Qed.

  Lemma all_failed_fs : forall h f,
    forallb failed (snd (run f h)) = true -> fst (run f h) = f.
  Proof.
    induction h as [|r t IH]; intro f; [reflexivity|].
    rewrite run_cons. cbn [fst snd forallb]. intro H. apply andb_true_iff in H. destruct H as [F R].
    rewrite (step_failed_fs f r F) in *. apply IH, R.
  Qed.

  Lemma run_app : forall h1 h2 f,
    run f (h1 ++ h2)%list = (fst (run (fst (run f h1)) h2), (snd (run f h1) ++ snd (run (fst (run f h1)) h2))%list).
  Proof.
    induction h1 as [|r t IH]; intros h2 f.
    - cbn [app Front.run fst snd]. destruct (run f h2); reflexivity.
    - cbn [app]. rewrite !run_cons, IH. reflexivity.
  Qed.

  Lemma run_snoc_last h r f d :
    last (snd (run f (h ++ [r])%list)) d = snd (step (fst (run f h)) r).
  Proof.
    rewrite run_app. cbn [snd]. rewrite run_cons. cbn [snd]. apply last_last.
  Qed.

  (* ------------------------------------------------------------ same-file refusal *)
  Lemma same_file_refused_step f file output stdin c ci :
    is_stdio file = false -> is_stdio output = false ->
    canon file = Some ci -> canon output = Some ci -> f ci <> None ->
    step f (RCli file output stdin c) =
      (f, OCli 1 "" ("Error: " ++ dbg_variant_str err_variant_message cli_same_file_msg ++ nlstr)).
  Proof.
    intros Hi Ho Ci Co Hex. cbn [Front.step]. unfold cli_step, from_args_check.
    rewrite Hi, Ho. cbn [negb andb]. unfold exists_, Front.read, canonicalize. rewrite Ci, Co.
    destruct (f ci) as [b|]; [|contradiction]. rewrite needs_existing. cbn [negb orb].
    rewrite String.eqb_refl. reflexivity.
  Qed.

  (* ------------------------------------------------------------ history independence *)
  Lemma canonicalize_alt f p :
    canonicalize f p = if exists_ f p then canon p else None.
  Proof. unfold canonicalize, exists_, Front.read. destruct (canon p) as [c|]; [destruct (f c)|]; reflexivity. Qed.

  Lemma exists_read f1 f2 p : read f1 p = read f2 p -> exists_ f1 p = exists_ f2 p.
  Proof. unfold exists_. intros ->. reflexivity. Qed.

  Lemma transform_file_obs f1 f2 file output stdin c :
    (is_stdio file = false -> read f1 file = read f2 file) ->
    snd (transform_file f1 file output stdin c) = snd (transform_file f2 file output stdin c).
  Proof.
    intro H. unfold transform_file. rewrite via_temp.
    assert (E : (if is_stdio file then Some stdin else read f1 file) =
                (if is_stdio file then Some stdin else read f2 file)).
    { destruct (is_stdio file); [reflexivity|apply H; reflexivity]. }
    rewrite E. destruct (if is_stdio file then Some stdin else read f2 file) as [inp|]; [|reflexivity].
    destruct (is_stdio output); [reflexivity|].
    destruct (T inp c) as [o|p d g]; [|reflexivity].
    unfold copy_temp, temp_write, mk_temp. cbn [fst snd written].
    destruct (canon output); reflexivity.
  Qed.

  Lemma step_obs_agree f1 f2 r : agree_on r f1 f2 -> snd (step f1 r) = snd (step f2 r).
  Proof.
    destruct r as [inp c|inp c|file output stdin c|inp meta]; cbn [Front.step snd Front.agree_on]; try reflexivity.
    intros [Hr He]. unfold cli_step.
    assert (E : from_args_check f1 file output = from_args_check f2 file output).
    { unfold from_args_check. destruct (is_stdio file) eqn:Hi; [reflexivity|].
      destruct (is_stdio output) eqn:Ho; [reflexivity|]. cbn [negb andb].
      rewrite !canonicalize_alt, (He eq_refl eq_refl), (exists_read f1 f2 file (Hr eq_refl)). reflexivity. }
    rewrite E. destruct (from_args_check f2 file output); [reflexivity|].
    apply transform_file_obs, Hr.
  Qed.

  Lemma pure_agree (r : request) f1 f2 : touches_fs r = false -> agree_on r f1 f2.
  Proof.
    destruct r as [inp c|inp c|file output stdin c|inp meta]; cbn [touches_fs Front.agree_on]; auto.
    intro H. apply negb_false_iff, andb_true_iff in H. destruct H as [Hi Ho].
    split; intros; congruence.
  Qed.

  Lemma obs_history_independent f1 f2 h1 h2 r d :
    agree_on r (fst (run f1 h1)) (fst (run f2 h2)) ->
    last (snd (run f1 (h1 ++ [r])%list)) d = last (snd (run f2 (h2 ++ [r])%list)) d.
  Proof. intro H. rewrite !run_snoc_last. apply step_obs_agree, H. Qed.

  Lemma pure_obs_history_independent f1 f2 h1 h2 r d :
    touches_fs r = false ->
    last (snd (run f1 (h1 ++ [r])%list)) d = last (snd (run f2 (h2 ++ [r])%list)) d.
  Proof. intro H. apply obs_history_independent, pure_agree, H. Qed.

  (* the observation at ANY position of a history, not only the last *)
  Lemma obs_nth_independent h1 r t f d :
    nth (length h1) (snd (run f (h1 ++ r :: t)%list)) d = snd (step (fst (run f h1)) r).
  Proof.
    rewrite run_app. cbn [snd]. rewrite run_cons. cbn [snd].
    assert (L : length (snd (run f h1)) = length h1).
    { clear. revert f. induction h1 as [|a l IH]; intro f; [reflexivity|]. rewrite run_cons. cbn. rewrite IH. reflexivity. }
    rewrite app_nth2; rewrite L; [|lia]. rewrite Nat.sub_diag. reflexivity.
  Qed.

  (* a history of requests that name no file: every observation is the one the request would get
     alone, on any file system - so any reordering (serialisation order) of such requests gives each
     request the same observation, and the file system is never touched *)
  Lemma pure_history_solo : forall (h : list request) f f0,
    forallb (fun r => negb (touches_fs r)) h = true ->
    fst (run f h) = f /\ snd (run f h) = map (fun r => snd (step f0 r)) h.
  Proof.
    induction h as [|r t IH]; intros f f0 H; [split; reflexivity|].
    cbn [forallb] in H. apply andb_true_iff in H. destruct H as [Hr Ht]. apply negb_true_iff in Hr.
    rewrite run_cons. cbn [fst snd map]. rewrite (step_pure_fs f r Hr).
    destruct (IH f f0 Ht) as [A B]. rewrite A, B. split; [reflexivity|].
    f_equal. apply step_obs_agree, pure_agree, Hr.
  Qed.

  (* ------------------------------------------------------------ front-ends render T *)
  Lemma write_c_self f c b : write_c f c b c = Some b.
  Proof. unfold Front.write_c. rewrite String.eqb_refl. reflexivity. Qed.

  Lemma delivered_is_result f r inp c :
    carries f r = Some (inp, c) -> k11_class r = false -> cli_blocked f r = false ->
    delivered (fst (step f r)) r (snd (step f r)) = result_bytes (T inp c).
  Proof.
    destruct r as [i c0|i c0|file output stdin c0|i meta]; cbn [Front.carries Front.step fst snd Front.k11_class Front.cli_blocked].
    - intros [= -> ->] _ _. destruct (T inp c); reflexivity.
    - intros [= -> ->] _ _. destruct (T inp c); reflexivity.
    - intros Hc _ Hb. unfold cli_step. destruct (from_args_check f file output); [discriminate|].
      unfold transform_file. rewrite via_temp.
      assert (E : (if is_stdio file then Some stdin else read f file) = Some inp /\ c0 = c).
      { destruct (is_stdio file); [injection Hc as -> ->; auto|].
        destruct (read f file); [injection Hc as -> ->; auto|discriminate]. }
      destruct E as [E ->]. rewrite E.
      destruct (is_stdio output) eqn:Ho.
      + destruct (T inp c) as [o|p d g]; cbn [fst snd Front.delivered cli_ok cli_fail main_err_exit]; rewrite ?Ho; reflexivity.
      + destruct (canon output) as [co|] eqn:Co; [|discriminate].
        destruct (T inp c) as [o|p d g]; cbn [written fst snd drop_temp temp_write mk_temp].
        * unfold copy_temp. cbn [fst snd]. rewrite Co. cbn [fst snd drop_temp Front.delivered cli_ok].
          rewrite Ho. unfold Front.read. rewrite Co. apply write_c_self.
        * reflexivity.
    - intros [= <- <-] Hk _. destruct (T i (http_cfg meta)) as [o|p d g]; cbn [render_http result_bytes].
      + rewrite Hk. cbn [Front.delivered]. rewrite Nat.eqb_refl. reflexivity.
      + unfold http_error. cbn [Front.delivered]. rewrite err_ne_ok. reflexivity.
  Qed.

  Lemma frontends_agree_lemma f1 f2 r1 r2 inp c :
    carries f1 r1 = Some (inp, c) -> carries f2 r2 = Some (inp, c) ->
    k11_class r1 = false -> k11_class r2 = false ->
    cli_blocked f1 r1 = false -> cli_blocked f2 r2 = false ->
    delivered (fst (step f1 r1)) r1 (snd (step f1 r1)) = delivered (fst (step f2 r2)) r2 (snd (step f2 r2)).
  Proof. intros. rewrite (delivered_is_result f1 r1 inp c), (delivered_is_result f2 r2 inp c); auto. Qed.

  (* ------------------------------------------------------------ failures are reported *)
  Lemma error_fails f r inp c p d g :
    carries f r = Some (inp, c) -> T inp c = TErr p d g -> failed (snd (step f r)) = true.
  Proof.
    destruct r as [i c0|i c0|file output stdin c0|i meta]; cbn [Front.carries Front.step snd].
    - intros [= -> ->] ->. reflexivity.
    - intros [= -> ->] ->. reflexivity.
    - intros Hc HT. unfold cli_step. destruct (from_args_check f file output); [reflexivity|].
      unfold transform_file. rewrite via_temp.
      assert (E : (if is_stdio file then Some stdin else read f file) = Some inp /\ c0 = c).
      { destruct (is_stdio file); [injection Hc as -> ->; auto|].
        destruct (read f file); [injection Hc as -> ->; auto|discriminate]. }
      destruct E as [E ->]. rewrite E, HT. destruct (is_stdio output); reflexivity.
    - intros [= <- <-] ->. cbn [render_http]. unfold http_error. cbn [failed]. rewrite err_ne_ok. reflexivity.
  Qed.

  Lemma main_err_stderr_nonempty g : main_err_stderr g <> "".
  Proof. unfold main_err_stderr. cbn. discriminate. Qed.

  Lemma failed_reported f r : failed (snd (step f r)) = true -> reported (snd (step f r)).
  Proof.
    destruct r as [i c|i c|file output stdin c|i meta]; cbn [Front.step snd].
    - destruct (T i c); cbn; [discriminate|auto].
    - destruct (T i c); cbn; [discriminate|auto].
    - assert (R : forall out g, reported (cli_fail out g)).
      { intros out g. cbn. split; [discriminate|apply main_err_stderr_nonempty]. }
      unfold cli_step. destruct (from_args_check f file output); [intros _; apply R|].
      unfold transform_file. rewrite via_temp.
      destruct (if is_stdio file then Some stdin else read f file) as [inp|]; [|intros _; apply R].
      destruct (is_stdio output).
      + destruct (T inp c); cbn [snd]; [rewrite cli_ok_not_failed; discriminate|intros _; apply R].
      + destruct (T inp c); cbn [written snd]; [|intros _; apply R].
        destruct (copy_temp canon same _ output); cbn [snd]; [rewrite cli_ok_not_failed; discriminate|intros _; apply R].
    - destruct (T i (http_cfg meta)) as [o|p d g]; cbn [render_http].
      + destruct (is_empty o).
        * intros _. cbn. rewrite err_status_400, err_ctype_plain. auto.
        * cbn [failed]. rewrite Nat.eqb_refl. discriminate.
      + intros _. cbn. rewrite err_status_400, err_ctype_plain. auto.
  Qed.

  (* ------------------------------------------------------------ a command touches only its output *)
  Lemma cli_touches_only_output f file output stdin c q :
    (forall co, canon output = Some co -> q <> co /\ same co q = false) ->
    fst (step f (RCli file output stdin c)) q = f q.
  Proof.
    intro H. cbn [Front.step]. unfold cli_step. destruct (from_args_check f file output); [reflexivity|].
    unfold transform_file. rewrite via_temp.
    destruct (if is_stdio file then Some stdin else read f file) as [inp|]; [|reflexivity].
    destruct (is_stdio output); [reflexivity|].
    destruct (T inp c) as [o|p d g]; [|reflexivity].
    unfold copy_temp, temp_write, mk_temp. cbn [fst snd written].
    destruct (canon output) as [co|] eqn:Co; [|reflexivity].
    cbn [fst drop_temp]. unfold Front.write_c. destruct (H co eq_refl) as [Hne Hs].
    rewrite Hs. apply String.eqb_neq in Hne. rewrite Hne. reflexivity.
  Qed.

  (* a successful command run with a file output stores exactly T's output there *)
  Lemma cli_success_writes f file output stdin c :
    is_stdio output = false -> failed (snd (step f (RCli file output stdin c))) = false ->
    exists inp out, carries f (RCli file output stdin c) = Some (inp, c) /\ T inp c = TOk out /\
                    read (fst (step f (RCli file output stdin c))) output = Some out.
  Proof.
    intros Ho. cbn [Front.step Front.carries]. unfold cli_step.
    destruct (from_args_check f file output); [discriminate|].
    unfold transform_file. rewrite via_temp, Ho.
    destruct (is_stdio file).
    - destruct (T stdin c) as [o|p d g] eqn:HT; [|discriminate].
      unfold copy_temp. cbn [fst snd written temp_write mk_temp].
      destruct (canon output) as [co|] eqn:Co; [|discriminate].
      intros _. exists stdin, o. cbn [fst drop_temp]. unfold Front.read. rewrite Co, write_c_self. auto.
    - destruct (read f file) as [inp|]; [|discriminate].
      destruct (T inp c) as [o|p d g] eqn:HT; [|discriminate].
      unfold copy_temp. cbn [fst snd written temp_write mk_temp].
      destruct (canon output) as [co|] eqn:Co; [|discriminate].
      intros _. exists inp, o. cbn [fst drop_temp]. unfold Front.read. rewrite Co, write_c_self. auto.
  Qed.

  (* ------------------------------------------------------------ K11 *)
  Lemma server_empty_output f inp meta :
    T inp (http_cfg meta) = TOk "" ->
    step f (RHttp inp meta) = (f, OHttp 400 "text/plain" "Error: Empty response") /\
    step f (RStr inp (http_cfg meta)) = (f, OLibOk "").
  Proof. intro H. cbn [Front.step]. rewrite H. split; reflexivity. Qed.
End FrontP.

(* ---------------------------------------------------------------------------------------------
   Concrete instances: the hypotheses of the theorems are satisfiable, and the two stated
   exceptions really are exceptions. *)
Definition doc_good : bytes := "<svg><rect wh=""2""/></svg>".
Definition out_good : bytes := "<svg version=""1.1""><rect width=""2"" height=""2""/></svg>".
Definition doc_bad : bytes := "<svg><rect xy=""#nope"" wh=""2""/></svg>".
Definition T_ex (inp : bytes) (c : string) : tres :=
  if String.eqb inp doc_good then TOk out_good
  else if String.eqb inp "" then TOk ""
  else TErr "" "Reference error: #nope" "ReferenceError(Id(""nope""))".
Definition http_ex (b : bool) : string := if b then "meta" else "".
(* name space: in.xml, a symlink and a dotted spelling of it, a hard link to it, an old output *)
Definition canon_ex (p : string) : option string :=
  if String.eqb p "in.xml" then Some "/d/in.xml"
  else if String.eqb p "sym.xml" then Some "/d/in.xml"
  else if String.eqb p "./sub/../in.xml" then Some "/d/in.xml"
  else if String.eqb p "hard.xml" then Some "/d/hard.xml"
  else if String.eqb p "bad.xml" then Some "/d/bad.xml"
  else if String.eqb p "out.svg" then Some "/d/out.svg"
  else if String.eqb p "new.svg" then Some "/d/new.svg"
  else None.
Definition same_ex (a b : string) : bool :=
  ((String.eqb a "/d/in.xml" && String.eqb b "/d/hard.xml") || (String.eqb a "/d/hard.xml" && String.eqb b "/d/in.xml"))%bool.
Definition fs_ex : string -> option bytes := fun c =>
  if String.eqb c "/d/in.xml" then Some doc_good
  else if String.eqb c "/d/hard.xml" then Some doc_good
  else if String.eqb c "/d/bad.xml" then Some doc_bad
  else if String.eqb c "/d/out.svg" then Some "OLD"
  else None.
Definition enoent_ex : bytes := "Os { code: 2, kind: NotFound, message: ""No such file or directory"" }".
Definition step_ex := step T_ex http_ex canon_ex same_ex enoent_ex.
Definition run_ex := run T_ex http_ex canon_ex same_ex enoent_ex.

(* K22: a hard link to the input is not refused and the input is overwritten *)
Lemma k22_witness :
  same_ex "/d/in.xml" "/d/hard.xml" = true /\
  snd (step_ex fs_ex (RCli "in.xml" "hard.xml" "" "")) = OCli 0 "" "" /\
  fs_ex "/d/in.xml" = Some doc_good /\
  fst (step_ex fs_ex (RCli "in.xml" "hard.xml" "" "")) "/d/in.xml" = Some out_good.
Proof. vm_compute. repeat split. Qed.

(* K11: empty input is Ok("") from the library and 400 from the server *)
Lemma k11_witness :
  snd (step_ex fs_ex (RStr "" "")) = OLibOk "" /\
  snd (step_ex fs_ex (RHttp "" false)) = OHttp 400 "text/plain" "Error: Empty response".
Proof. vm_compute. split; reflexivity. Qed.

(* the full-strength statements (Props/C07.v full_same_file_refused, full_frontends_agree) are false *)
Lemma full_same_file_refuted_l : ~
  (forall (cfg : Type) (T : bytes -> cfg -> tres) (http_cfg : bool -> cfg) (canon : string -> option string)
         (same : string -> string -> bool) (enoent : bytes) (f : fs) file output stdin (c : cfg) ci co,
  is_stdio file = false -> is_stdio output = false ->
  canon file = Some ci -> canon output = Some co -> (ci = co \/ same ci co = true) -> f ci <> None -> f co <> None ->
  failed (snd (step T http_cfg canon same enoent f (RCli file output stdin c))) = true).
Proof.
  intro H.
  specialize (H string T_ex http_ex canon_ex same_ex enoent_ex fs_ex "in.xml" "hard.xml" "" "" "/d/in.xml" "/d/hard.xml"
                eq_refl eq_refl eq_refl eq_refl (or_intror eq_refl)).
  vm_compute in H. assert (E : false = true) by (apply H; discriminate). discriminate E.
Qed.

Lemma full_agree_refuted_l : ~
  (forall (cfg : Type) (T : bytes -> cfg -> tres) (http_cfg : bool -> cfg) (canon : string -> option string)
         (same : string -> string -> bool) (enoent : bytes) (f1 f2 : fs) (r1 r2 : request) inp c,
  carries http_cfg canon f1 r1 = Some (inp, c) -> carries http_cfg canon f2 r2 = Some (inp, c) ->
  cli_blocked canon enoent f1 r1 = false -> cli_blocked canon enoent f2 r2 = false ->
  delivered canon (fst (step T http_cfg canon same enoent f1 r1)) r1 (snd (step T http_cfg canon same enoent f1 r1))
    = delivered canon (fst (step T http_cfg canon same enoent f2 r2)) r2 (snd (step T http_cfg canon same enoent f2 r2))).
Proof.
  intro H.
  specialize (H string T_ex http_ex canon_ex same_ex enoent_ex fs_ex fs_ex (RStr "" "") (RHttp "" false) "" ""
                eq_refl eq_refl eq_refl eq_refl).
  vm_compute in H. discriminate H.
Qed.
