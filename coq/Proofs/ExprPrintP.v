(* eval_print: evaluating the printed form of a tree gives the conventional meaning of the tree. *)
From Coq Require Import String Ascii List Bool Arith ZArith Lia.
From SvgdxModel Require Import Base.Str Base.Res Num.NumOps Num.XOps Gen.Tables Model.Funcs Model.Expr
  Model.ExprSpec Proofs.ExprP.
Import ListNotations.

(* ---- facts about the generated operator tables (by computation; a changed table entry breaks these) *)
Lemma cmp_name_ok : forall op, comparison_op (cmp_name op) = Some op.
Proof. destruct op; vm_compute; reflexivity. Qed.
Lemma log_name_ok : forall op, logical_op (log_name op) = Some op.
Proof. destruct op; vm_compute; reflexivity. Qed.
Lemma log_name_not_cmp : forall op, comparison_op (log_name op) = None.
Proof. destruct op; vm_compute; reflexivity. Qed.

Section PrintP.
Context {N : NumOps} (X : XOps N).
Context (getvar : string -> option string) (elref_val : string -> res (num N)).
Local Notation value := (@value N).
Local Notation sval := (@sval N).
Local Notation est := (est X).
Local Notation token := (@token N).
Local Notation call := (@call N).
Local Notation R := (@R N X).
Local Notation run := (run X getvar elref_val).
Local Notation body := (run_body X getvar elref_val).

(* ---- one_number only looks at the flattened value *)
Lemma mapM_sval_num (l : list sval) :
  mapM sval_num l = Err EParse \/ exists l', mapM sval_num l = Ok l' /\ length l' = length l.
Proof.
  induction l as [|s l IH]; cbn [mapM]; [right; exists []; auto|].
  destruct s; cbn [sval_num bind]; auto.
  destruct IH as [E|(l' & E & Hl)]; rewrite E; cbn [bind]; auto.
  right. exists (x :: l'). cbn [length]. auto.
Qed.
Lemma one_number_spec (v : value) :
  one_number v = match flatten v with [SNum x] => Ok x | _ => Err EParse end.
Proof.
  unfold one_number. destruct v as [[]|l]; cbn; try reflexivity.
  destruct l as [|a [|b l]]; [reflexivity | destruct a; reflexivity |].
  destruct (mapM_sval_num (a :: b :: l)) as [E|(l' & E & Hl)]; rewrite E; cbn [bind].
  - destruct a; reflexivity.
  - destruct l' as [|x [|y l']]; cbn [length] in Hl; try lia. destruct a; reflexivity.
Qed.
Lemma one_number_flat (v w : value) : flatten v = flatten w -> one_number v = one_number w.
Proof. intros E. rewrite !one_number_spec, E. reflexivity. Qed.
Lemma one_number_ok_flat (v : value) x : one_number v = Ok x -> flatten v = [SNum x].
Proof.
  rewrite one_number_spec. destruct (flatten v) as [|[] [|]]; try discriminate. intros E; inversion E; reflexivity.
Qed.
Lemma one_number_VNum (x : num N) : one_number (VNum x) = Ok x.
Proof. reflexivity. Qed.

(* ---- "eventually": the result once the fuel is large enough *)
Definition ev {T} (g : nat -> res T) (r : res T) : Prop := exists n, forall f, n <= f -> g f = r.

Lemma ev_const {T} (r : res T) : ev (fun _ => r) r.
Proof. exists 0. reflexivity. Qed.
Lemma ev_bind {A B} (g : nat -> res A) (k : nat -> A -> res B) a r :
  ev g (Ok a) -> ev (fun f => k f a) r -> ev (fun f => bind (g f) (k f)) r.
Proof.
  intros [n1 H1] [n2 H2]. exists (Nat.max n1 n2). intros f Hf.
  rewrite H1 by lia. cbn [bind]. apply H2. lia.
Qed.
Lemma ev_ext {T} (g h : nat -> res T) r : (forall f, g f = h f) -> ev h r -> ev g r.
Proof. intros E [n H]. exists n. intros f Hf. rewrite E. apply H, Hf. Qed.

Section WithCv.
Context (cv : list string).
Local Notation RUN c d ts st := (fun f => run f c cv d ts st).

Lemma ev_body c d ts st r : ev (fun f => body (run f) c cv d ts st) r -> ev (RUN c d ts st) r.
Proof.
  intros [n H]. exists (S n). intros [|f] Hf; [lia|]. apply (H f). lia.
Qed.

Ltac evb := apply ev_body; unfold run_body.
Ltac evbind H := eapply ev_bind; [exact H | cbn beta iota].

(* ---- one lemma per path through each case of the evaluator ---- *)
Lemma L_logical d ts st e ts1 st1 r :
  ev (RUN CComparison d ts st) (Ok (e, ts1, st1)) -> ev (RUN (CLogicalLoop e) d ts1 st1) r ->
  ev (RUN CLogical d ts st) r.
Proof. intros H1 H2. evb. evbind H1. exact H2. Qed.

(* what may follow an operand at each binding level *)
Definition stops3 (rest : list token) : Prop := match rest with (TMul | TDiv | TMod) :: _ => False | _ => True end.
Definition stops2 (rest : list token) : Prop := stops3 rest /\ match rest with (TAdd | TSub) :: _ => False | _ => True end.
Definition stops1 (rest : list token) : Prop :=
  stops2 rest /\ match rest with TSym s :: _ => comparison_op s = None | _ => True end.
Definition stops0 (rest : list token) : Prop :=
  stops1 rest /\ match rest with TSym s :: _ => logical_op s = None | _ => True end.
Definition no_logical (rest : list token) : Prop := match rest with TSym s :: _ => logical_op s = None | _ => True end.
Definition list_end (rest : list token) : Prop := match rest with [] | TClose :: _ => True | _ => False end.

Lemma list_end_stops0 rest : list_end rest -> stops0 rest.
Proof. destruct rest as [|[] r]; cbn; intros H; try contradiction; repeat split. Qed.
Lemma comma_stops0 (r : list token) : stops0 (TComma :: r).
Proof. repeat split. Qed.

Lemma L_logloop_stop d e ts st : no_logical ts -> ev (RUN (CLogicalLoop e) d ts st) (Ok (e, ts, st)).
Proof.
  intros H. evb. destruct ts as [|[] r]; try apply ev_const. cbn in H. rewrite H. apply ev_const.
Qed.
Lemma L_logloop_op d e s r st op o ts1 st1 x y res :
  logical_op s = Some op -> ev (RUN CComparison d r st) (Ok (o, ts1, st1)) ->
  one_number o = Ok y -> one_number e = Ok x ->
  ev (RUN (CLogicalLoop (VNum (of_bool (apply_log op x y)))) d ts1 st1) res ->
  ev (RUN (CLogicalLoop e) d (TSym s :: r) st) res.
Proof.
  intros Hop H1 Hy Hx H2. evb. rewrite Hop. evbind H1. rewrite Hy, Hx. cbn [bind]. exact H2.
Qed.

Lemma L_cmp_pass d ts st t ts1 st1 :
  ev (RUN CTerm d ts st) (Ok (t, ts1, st1)) -> (forall x, one_number t <> Ok x) ->
  ev (RUN CComparison d ts st) (Ok (t, ts1, st1)).
Proof.
  intros H1 Hn. evb. evbind H1. destruct (one_number t) eqn:E; try apply ev_const. exfalso; exact (Hn _ eq_refl).
Qed.
Lemma L_cmp_stop d ts st t ts1 st1 x :
  ev (RUN CTerm d ts st) (Ok (t, ts1, st1)) -> one_number t = Ok x ->
  match ts1 with TSym s :: _ => comparison_op s = None | _ => True end ->
  ev (RUN CComparison d ts st) (Ok (VNum x, ts1, st1)).
Proof.
  intros H1 Hx Hs. evb. evbind H1. rewrite Hx. destruct ts1 as [|[] r]; try apply ev_const.
  rewrite Hs. apply ev_const.
Qed.
Lemma L_cmp_op d ts st t s r st1 x op t2 ts2 st2 y :
  ev (RUN CTerm d ts st) (Ok (t, TSym s :: r, st1)) -> one_number t = Ok x -> comparison_op s = Some op ->
  ev (RUN CTerm d r st1) (Ok (t2, ts2, st2)) -> one_number t2 = Ok y ->
  ev (RUN CComparison d ts st) (Ok (VNum (of_bool (apply_cmp op x y)), ts2, st2)).
Proof.
  intros H1 Hx Hop H2 Hy. evb. evbind H1. rewrite Hx, Hop. evbind H2. rewrite Hy. cbn [bind]. apply ev_const.
Qed.

Lemma L_term d ts st t ts1 st1 e r :
  ev (RUN CFactor d ts st) (Ok (t, ts1, st1)) -> one_number t = Ok e ->
  ev (RUN (CTermLoop e) d ts1 st1) r -> ev (RUN CTerm d ts st) r.
Proof. intros H1 He H2. evb. evbind H1. rewrite He. exact H2. Qed.
Lemma L_term_pass d ts st t ts1 st1 :
  ev (RUN CFactor d ts st) (Ok (t, ts1, st1)) -> (forall x, one_number t <> Ok x) ->
  ev (RUN CTerm d ts st) (Ok (t, ts1, st1)).
Proof.
  intros H1 Hn. evb. evbind H1. destruct (one_number t) eqn:E; try apply ev_const. exfalso; exact (Hn _ eq_refl).
Qed.
Lemma L_termloop_stop d e ts st :
  match ts with (TAdd | TSub) :: _ => False | _ => True end -> ev (RUN (CTermLoop e) d ts st) (Ok (VNum e, ts, st)).
Proof. intros H. evb. destruct ts as [|[] r]; try apply ev_const; contradiction. Qed.
Lemma L_termloop_add d e r st v ts1 st1 x res :
  ev (RUN CFactor d r st) (Ok (v, ts1, st1)) -> one_number v = Ok x ->
  ev (RUN (CTermLoop (nadd N e x)) d ts1 st1) res -> ev (RUN (CTermLoop e) d (TAdd :: r) st) res.
Proof. intros H1 Hx H2. evb. evbind H1. rewrite Hx. cbn [bind]. exact H2. Qed.
Lemma L_termloop_sub d e r st v ts1 st1 x res :
  ev (RUN CFactor d r st) (Ok (v, ts1, st1)) -> one_number v = Ok x ->
  ev (RUN (CTermLoop (nsub N e x)) d ts1 st1) res -> ev (RUN (CTermLoop e) d (TSub :: r) st) res.
Proof. intros H1 Hx H2. evb. evbind H1. rewrite Hx. cbn [bind]. exact H2. Qed.

Lemma L_factor d ts st p ts1 st1 e r :
  ev (RUN CPrimary d ts st) (Ok (p, ts1, st1)) -> one_number p = Ok e ->
  ev (RUN (CFactorLoop e) d ts1 st1) r -> ev (RUN CFactor d ts st) r.
Proof. intros H1 He H2. evb. evbind H1. rewrite He. exact H2. Qed.
Lemma L_factor_pass d ts st p ts1 st1 :
  ev (RUN CPrimary d ts st) (Ok (p, ts1, st1)) -> (forall x, one_number p <> Ok x) ->
  ev (RUN CFactor d ts st) (Ok (p, ts1, st1)).
Proof.
  intros H1 Hn. evb. evbind H1. destruct (one_number p) eqn:E; try apply ev_const. exfalso; exact (Hn _ eq_refl).
Qed.
Lemma L_factorloop_stop d e ts st : stops3 ts -> ev (RUN (CFactorLoop e) d ts st) (Ok (VNum e, ts, st)).
Proof. intros H. evb. destruct ts as [|[] r]; try apply ev_const; contradiction. Qed.
Lemma L_factorloop_mul d e r st v ts1 st1 x res :
  ev (RUN CPrimary d r st) (Ok (v, ts1, st1)) -> one_number v = Ok x ->
  ev (RUN (CFactorLoop (nmul N e x)) d ts1 st1) res -> ev (RUN (CFactorLoop e) d (TMul :: r) st) res.
Proof. intros H1 Hx H2. evb. evbind H1. rewrite Hx. cbn [bind]. exact H2. Qed.
Lemma L_factorloop_div d e r st v ts1 st1 x res :
  ev (RUN CPrimary d r st) (Ok (v, ts1, st1)) -> one_number v = Ok x ->
  ev (RUN (CFactorLoop (ndiv N e x)) d ts1 st1) res -> ev (RUN (CFactorLoop e) d (TDiv :: r) st) res.
Proof. intros H1 Hx H2. evb. evbind H1. rewrite Hx. cbn [bind]. exact H2. Qed.
Lemma L_factorloop_mod d e r st v ts1 st1 x res :
  ev (RUN CPrimary d r st) (Ok (v, ts1, st1)) -> one_number v = Ok x ->
  ev (RUN (CFactorLoop (xrem_euclid X e x)) d ts1 st1) res -> ev (RUN (CFactorLoop e) d (TMod :: r) st) res.
Proof. intros H1 Hx H2. evb. evbind H1. rewrite Hx. cbn [bind]. exact H2. Qed.

(* primary: the guard passes when S d <= max_expr_depth *)
Lemma guard_ok d : S d <= max_expr_depth -> Nat.ltb max_expr_depth (S d) = false.
Proof. intros H. apply Nat.ltb_ge. exact H. Qed.
Lemma L_prim_num d x r st : S d <= max_expr_depth -> ev (RUN CPrimary d (TNum x :: r) st) (Ok (VNum x, r, st)).
Proof. intros Hd. evb. rewrite (guard_ok d Hd). apply ev_const. Qed.
Lemma L_prim_str d s r st : S d <= max_expr_depth -> ev (RUN CPrimary d (TStr s :: r) st) (Ok (VOne (SStr s), r, st)).
Proof. intros Hd. evb. rewrite (guard_ok d Hd). apply ev_const. Qed.
Lemma L_prim_var d v r st res :
  S d <= max_expr_depth -> ev (RUN (CLookup v) (S d) r st) res -> ev (RUN CPrimary d (TVar v :: r) st) res.
Proof. intros Hd H. evb. rewrite (guard_ok d Hd). exact H. Qed.
Lemma L_prim_neg d ts st v ts1 st1 x :
  S d <= max_expr_depth -> ev (RUN CPrimary (S d) ts st) (Ok (v, ts1, st1)) -> one_number v = Ok x ->
  ev (RUN CPrimary d (TSub :: ts) st) (Ok (VNum (nneg N x), ts1, st1)).
Proof. intros Hd H Hx. evb. rewrite (guard_ok d Hd). evbind H. rewrite Hx. cbn [bind]. apply ev_const. Qed.
Lemma L_prim_paren d ts st e r1 st1 :
  S d <= max_expr_depth -> ev (RUN (CExprList true) (S d) ts st) (Ok (e, TClose :: r1, st1)) ->
  ev (RUN CPrimary d (TOpen :: ts) st) (Ok (e, r1, st1)).
Proof. intros Hd H. evb. rewrite (guard_ok d Hd). evbind H. apply ev_const. Qed.
Lemma L_prim_call d name fn ts st args r2 st1 e st2 :
  S d <= max_expr_depth -> function_of name = Ok fn ->
  ev (RUN (CExprList true) (S d) ts st) (Ok (args, TClose :: r2, st1)) ->
  eval_function X fn args st1 = Ok (e, st2) ->
  ev (RUN CPrimary d (TSym name :: TOpen :: ts) st) (Ok (e, r2, st2)).
Proof.
  intros Hd Hf H He. evb. rewrite (guard_ok d Hd), Hf. cbn [bind]. evbind H. rewrite He. cbn [bind]. apply ev_const.
Qed.

Lemma L_exprlist_empty d r st : ev (RUN (CExprList true) d (TClose :: r) st) (Ok (VList [], TClose :: r, st)).
Proof. evb. apply ev_const. Qed.
Lemma L_exprlist d ao ts st res :
  (ao = false \/ match ts with TClose :: _ => False | _ => True end) ->
  ev (RUN (CListLoop []) d ts st) res -> ev (RUN (CExprList ao) d ts st) res.
Proof.
  intros Hc H. evb. destruct ao; [|exact H]. destruct Hc as [Hc|Hc]; [discriminate|].
  destruct ts as [|[] r]; try exact H. contradiction.
Qed.
Lemma L_listloop_last d out ts st e ts1 st1 :
  ev (RUN CLogical d ts st) (Ok (e, ts1, st1)) -> match ts1 with TComma :: _ => False | _ => True end ->
  ev (RUN (CListLoop out) d ts st) (Ok (VList (out ++ flatten e), ts1, st1)).
Proof. intros H Hc. evb. evbind H. destruct ts1 as [|[] r]; try apply ev_const. contradiction. Qed.
Lemma L_listloop_more d out ts st e r st1 res :
  ev (RUN CLogical d ts st) (Ok (e, TComma :: r, st1)) ->
  ev (RUN (CListLoop (out ++ flatten e)) d r st1) res -> ev (RUN (CListLoop out) d ts st) res.
Proof. intros H H2. evb. evbind H. exact H2. Qed.

(* ---- the statements carried through the levels, for a token list [l] printed from a tree ---- *)
Definition F4 d (l : list token) st (fl : list sval) st' : Prop :=
  exists v', flatten v' = fl /\ forall rest, ev (RUN CPrimary d (l ++ rest) st) (Ok (v', rest, st')).
Definition F3 d (l : list token) st x st' : Prop :=
  forall rest r, ev (RUN (CFactorLoop x) d rest st') r -> ev (RUN CFactor d (l ++ rest) st) r.
Definition F2 d (l : list token) st x st' : Prop :=
  forall rest r, stops3 rest -> ev (RUN (CTermLoop x) d rest st') r -> ev (RUN CTerm d (l ++ rest) st) r.
Definition F1 d (l : list token) st x st' : Prop :=
  forall rest, stops1 rest -> ev (RUN CComparison d (l ++ rest) st) (Ok (VNum x, rest, st')).
Definition F0 d (l : list token) st x st' : Prop :=
  forall rest r, stops1 rest -> ev (RUN (CLogicalLoop (VNum x)) d rest st') r -> ev (RUN CLogical d (l ++ rest) st) r.
Definition FI d (l : list token) st (fl : list sval) st' : Prop :=
  forall rest, stops0 rest -> exists v', flatten v' = fl /\ ev (RUN CLogical d (l ++ rest) st) (Ok (v', rest, st')).

Lemma one_number_of_flat (v : value) x : flatten v = [SNum x] -> one_number v = Ok x.
Proof. intros E. rewrite one_number_spec, E. reflexivity. Qed.
Lemma not_number_of_flat (v : value) : (forall x, flatten v <> [SNum x]) -> forall x, one_number v <> Ok x.
Proof. intros H x E. apply (H x). apply one_number_ok_flat. exact E. Qed.

Lemma up43 d l st x st' : F4 d l st [SNum x] st' -> F3 d l st x st'.
Proof.
  intros (v' & Hv & H) rest r Hk. eapply L_factor; [apply H | apply one_number_of_flat; exact Hv | exact Hk].
Qed.
Lemma up32 d l st x st' : F3 d l st x st' -> F2 d l st x st'.
Proof.
  intros H rest r Hs Hk. eapply L_term; [apply H; apply L_factorloop_stop; exact Hs | apply one_number_VNum | exact Hk].
Qed.
Lemma up21 d l st x st' : F2 d l st x st' -> F1 d l st x st'.
Proof.
  intros H rest [[Hs3 Hs2] Hs1]. eapply L_cmp_stop; [apply H; [exact Hs3 | apply L_termloop_stop; exact Hs2] | apply one_number_VNum | exact Hs1].
Qed.
Lemma up10 d l st x st' : F1 d l st x st' -> F0 d l st x st'.
Proof. intros H rest r Hs Hk. eapply L_logical; [apply H; exact Hs | exact Hk]. Qed.
Lemma up0I d l st x st' : F0 d l st x st' -> FI d l st [SNum x] st'.
Proof.
  intros H rest [Hs1 Hs0]. exists (VNum x). split; [reflexivity|].
  apply H; [exact Hs1 | apply L_logloop_stop; exact Hs0].
Qed.
Lemma up4I_nonnum d l st fl st' : (forall x, fl <> [SNum x]) -> F4 d l st fl st' -> FI d l st fl st'.
Proof.
  intros Hn (v' & Hv & H) rest [_ Hs0]. exists v'. split; [exact Hv|].
  assert (Hnn : forall x, one_number v' <> Ok x) by (apply not_number_of_flat; rewrite Hv; exact Hn).
  eapply L_logical; [|apply L_logloop_stop; exact Hs0].
  apply L_cmp_pass; [|exact Hnn]. apply L_term_pass; [|exact Hnn]. apply L_factor_pass; [|exact Hnn]. apply H.
Qed.

(* everything that holds of a list of tokens evaluated as a primary *)
Definition Fall d (l4 l3 l2 l1 l0 : list token) st (fl : list sval) st' : Prop :=
  F4 d l4 st fl st' /\ FI d l0 st fl st' /\
  forall x, fl = [SNum x] -> F3 d l3 st x st' /\ F2 d l2 st x st' /\ F1 d l1 st x st' /\ F0 d l0 st x st'.

Lemma prim_all d l st fl st' : F4 d l st fl st' -> Fall d l l l l l st fl st'.
Proof.
  intros H4. split; [exact H4|].
  assert (Hnum : forall x, fl = [SNum x] -> F3 d l st x st' /\ F2 d l st x st' /\ F1 d l st x st' /\ F0 d l st x st').
  { intros x ->. pose proof (up43 _ _ _ _ _ H4) as H3. pose proof (up32 _ _ _ _ _ H3) as H2.
    pose proof (up21 _ _ _ _ _ H2) as H1. pose proof (up10 _ _ _ _ _ H1) as H0. auto. }
  split; [|exact Hnum].
  destruct fl as [|[x| |] [|]]; try (apply up4I_nonnum; [intros y; discriminate | exact H4]).
  apply up0I. apply (Hnum x eq_refl).
Qed.

(* ---- operator nodes, open (unparenthesised) at their own level ---- *)
Lemma open_mul d op la lb st x st1 y st2 :
  bin_level op = 3 -> F3 d la st x st1 -> F4 d lb st1 [SNum y] st2 ->
  F3 d (la ++ bin_token op :: lb) st (apply_bin X op x y) st2.
Proof.
  intros Hl Ha (v' & Hv & Hb) rest r Hk. rewrite <- app_assoc. cbn [app]. apply Ha.
  pose proof (one_number_of_flat _ _ Hv) as Hy.
  destruct op; try discriminate; cbn [bin_token apply_bin].
  - eapply L_factorloop_mul; [apply Hb | exact Hy | exact Hk].
  - eapply L_factorloop_div; [apply Hb | exact Hy | exact Hk].
  - eapply L_factorloop_mod; [apply Hb | exact Hy | exact Hk].
Qed.
Lemma open_add d op la lb st x st1 y st2 :
  bin_level op = 2 -> F2 d la st x st1 -> F3 d lb st1 y st2 ->
  F2 d (la ++ bin_token op :: lb) st (apply_bin X op x y) st2.
Proof.
  intros Hl Ha Hb rest r Hs Hk. rewrite <- app_assoc. cbn [app].
  assert (Hf : ev (RUN CFactor d (lb ++ rest) st1) (Ok (VNum y, rest, st2))) by (apply Hb; apply L_factorloop_stop; exact Hs).
  destruct op; try discriminate; cbn [bin_token apply_bin]; (apply Ha; [exact I|]).
  - eapply L_termloop_add; [exact Hf | apply one_number_VNum | exact Hk].
  - eapply L_termloop_sub; [exact Hf | apply one_number_VNum | exact Hk].
Qed.
Lemma open_cmp d n op la lb st x st1 y st2 :
  comparison_op n = Some op -> F2 d la st x st1 -> F2 d lb st1 y st2 ->
  F1 d (la ++ TSym n :: lb) st (of_bool (apply_cmp op x y)) st2.
Proof.
  intros Hop Ha Hb rest [[Hs3 Hs2] Hs1]. rewrite <- app_assoc. cbn [app].
  eapply L_cmp_op; [apply Ha; [exact I | apply L_termloop_stop; exact I] | apply one_number_VNum | exact Hop
                   | apply Hb; [exact Hs3 | apply L_termloop_stop; exact Hs2] | apply one_number_VNum].
Qed.
Lemma open_log d n op la lb st x st1 y st2 :
  logical_op n = Some op -> comparison_op n = None -> F0 d la st x st1 -> F1 d lb st1 y st2 ->
  F0 d (la ++ TSym n :: lb) st (of_bool (apply_log op x y)) st2.
Proof.
  intros Hop Hnc Ha Hb rest r Hs Hk. rewrite <- app_assoc. cbn [app].
  apply Ha; [repeat split; exact Hnc|].
  eapply L_logloop_op; [exact Hop | apply Hb; exact Hs | apply one_number_VNum | apply one_number_VNum | exact Hk].
Qed.

Definition head_ok (l : list token) : Prop := match l with [] => False | TClose :: _ => False | _ => True end.
Lemma head_ok_app l r : head_ok l -> match (l ++ r)%list with TClose :: _ => False | _ => True end.
Proof. destruct l as [|[] l']; cbn; intros H; try exact I; contradiction. Qed.
Lemma head_ok_app' l r : head_ok l -> head_ok (l ++ r).
Proof. destruct l as [|[] l']; cbn; intros H; try exact I; contradiction. Qed.

Lemma paren_prim d open st x st' :
  S d <= max_expr_depth -> head_ok open -> FI (S d) open st [SNum x] st' ->
  F4 d (TOpen :: open ++ [TClose]) st [SNum x] st'.
Proof.
  intros Hd Hh HI. exists (VList [SNum x]). split; [reflexivity|]. intros rest.
  cbn [app]. rewrite <- app_assoc. cbn [app]. apply L_prim_paren; [exact Hd|].
  apply L_exprlist; [right; apply head_ok_app; exact Hh|].
  destruct (HI (TClose :: rest) (list_end_stops0 (TClose :: rest) I)) as (v' & Hv & Hev).
  pose proof (L_listloop_last (S d) [] _ _ _ _ _ Hev I) as HL. rewrite Hv in HL. exact HL.
Qed.

Lemma node3 d open st z st' :
  S d <= max_expr_depth -> head_ok open -> F3 d open st z st' -> F3 (S d) open st z st' ->
  let P := (TOpen :: open ++ [TClose])%list in Fall d P open open open open st [SNum z] st'.
Proof.
  intros Hd Hh Ho HoS P.
  assert (H4 : F4 d P st [SNum z] st') by (apply paren_prim; [exact Hd | exact Hh | apply up0I, up10, up21, up32; exact HoS]).
  split; [exact H4|]. split; [apply up0I, up10, up21, up32; exact Ho|].
  intros x E. inversion E; subst x. repeat split; [exact Ho | apply up32; exact Ho | apply up21, up32; exact Ho | apply up10, up21, up32; exact Ho].
Qed.
Lemma node2 d open st z st' :
  S d <= max_expr_depth -> head_ok open -> F2 d open st z st' -> F2 (S d) open st z st' ->
  let P := (TOpen :: open ++ [TClose])%list in Fall d P P open open open st [SNum z] st'.
Proof.
  intros Hd Hh Ho HoS P.
  assert (H4 : F4 d P st [SNum z] st') by (apply paren_prim; [exact Hd | exact Hh | apply up0I, up10, up21; exact HoS]).
  split; [exact H4|]. split; [apply up0I, up10, up21; exact Ho|].
  intros x E. inversion E; subst x. repeat split; [apply up43; exact H4 | exact Ho | apply up21; exact Ho | apply up10, up21; exact Ho].
Qed.
Lemma node1 d open st z st' :
  S d <= max_expr_depth -> head_ok open -> F1 d open st z st' -> F1 (S d) open st z st' ->
  let P := (TOpen :: open ++ [TClose])%list in Fall d P P P open open st [SNum z] st'.
Proof.
  intros Hd Hh Ho HoS P.
  assert (H4 : F4 d P st [SNum z] st') by (apply paren_prim; [exact Hd | exact Hh | apply up0I, up10; exact HoS]).
  split; [exact H4|]. split; [apply up0I, up10; exact Ho|].
  intros x E. inversion E; subst x. repeat split; [apply up43; exact H4 | apply up32, up43; exact H4 | exact Ho | apply up10; exact Ho].
Qed.
Lemma node0 d open st z st' :
  S d <= max_expr_depth -> head_ok open -> F0 d open st z st' -> F0 (S d) open st z st' ->
  let P := (TOpen :: open ++ [TClose])%list in Fall d P P P P open st [SNum z] st'.
Proof.
  intros Hd Hh Ho HoS P.
  assert (H4 : F4 d P st [SNum z] st') by (apply paren_prim; [exact Hd | exact Hh | apply up0I; exact HoS]).
  split; [exact H4|]. split; [apply up0I; exact Ho|].
  intros x E. inversion E; subst x. repeat split; [apply up43; exact H4 | apply up32, up43; exact H4 | apply up21, up32, up43; exact H4 | exact Ho].
Qed.

(* ---- the induction over trees ---- *)
Context (rho : string -> option value) (vdepth : string -> nat).
(* the variables of the tree: looking one up at any admissible depth gives its value, draws nothing *)
Definition vars_ok : Prop :=
  forall v x, rho v = Some x -> forall d st rest, d + vdepth v <= max_expr_depth ->
    ev (RUN (CLookup v) d rest st) (Ok (x, rest, st)).
Context (Hvars : vars_ok).
Local Notation den := (denote X rho).
Local Notation denl := (denote_list X rho).
Local Notation pd := (pdepth vdepth).
Local Notation pds := (pdepths vdepth).

Scheme ast_mind := Induction for ast Sort Prop
  with asts_mind := Induction for asts Sort Prop.
Combined Scheme ast_asts_ind from ast_mind, asts_mind.

Lemma pr_head : (forall (a : @ast N) lvl, head_ok (pr lvl a)) /\ (forall l : @asts N, l <> ANil -> head_ok (prs l)).
Proof.
  apply ast_asts_ind; intros; cbn [pr prs]; try exact I.
  - unfold paren. destruct (Nat.ltb _ _); [exact I|]. apply head_ok_app'. apply H.
  - unfold paren. destruct (Nat.ltb _ _); [exact I|]. apply head_ok_app'. apply H.
  - unfold paren. destruct (Nat.ltb _ _); [exact I|]. apply head_ok_app'. apply H.
  - congruence.
  - destruct l; [apply H | apply head_ok_app'; apply H].
Qed.

Lemma pr_AList lvl (l : @asts N) : pr lvl (AList l) = (TOpen :: prs l ++ [TClose])%list.
Proof. reflexivity. Qed.
Lemma pr_ACall lvl name (l : @asts N) : pr lvl (ACall name l) = (TSym name :: TOpen :: prs l ++ [TClose])%list.
Proof. reflexivity. Qed.

Lemma den_AList (l : @asts N) st : den (AList l) st = (do '(vs, st1) <- denl l st; Ok (VList vs, st1)).
Proof. reflexivity. Qed.
Lemma den_ACall name (l : @asts N) st :
  den (ACall name l) st = (do fn <- function_of name; do '(vs, st1) <- denl l st; eval_function X fn (VList vs) st1).
Proof. reflexivity. Qed.
Lemma denl_cons (a : @ast N) l st :
  denl (ACons a l) st = (do '(v, st1) <- den a st; do '(vs, st2) <- denl l st1; Ok ((flatten v ++ vs)%list, st2)).
Proof. reflexivity. Qed.
Lemma pd_AList (l : @asts N) : pd (AList l) = 1 + pds l. Proof. reflexivity. Qed.
Lemma pd_ACall name (l : @asts N) : pd (ACall name l) = 1 + pds l. Proof. reflexivity. Qed.
Lemma pds_cons (a : @ast N) l : pds (ACons a l) = Nat.max (pd a) (pds l). Proof. reflexivity. Qed.

Definition Sa (a : @ast N) : Prop :=
  forall d st v st', den a st = Ok (v, st') -> d + pd a <= max_expr_depth ->
    Fall d (pr 4 a) (pr 3 a) (pr 2 a) (pr 1 a) (pr 0 a) st (flatten v) st'.
Definition Sl (l : @asts N) : Prop :=
  forall d st vs st', denl l st = Ok (vs, st') -> d + pds l <= max_expr_depth -> l <> ANil ->
    forall out rest, list_end rest ->
      ev (RUN (CListLoop out) d (prs l ++ rest) st) (Ok (VList (out ++ vs), rest, st')).

Ltac bind_den H v s E :=
  match type of H with bind ?x _ = Ok _ =>
    destruct x as [[v s]| | |] eqn:E; cbn [bind] in H; [|discriminate H..] end.
Ltac bind_num H x E :=
  match type of H with bind ?y _ = Ok _ =>
    destruct y as [x| | |] eqn:E; cbn [bind] in H; [|discriminate H..] end.

(* an argument list in parentheses, entered after the OpenParen *)
Lemma args_list l : Sl l -> forall d st vs st', denl l st = Ok (vs, st') -> d + pds l <= max_expr_depth ->
  forall rest, ev (RUN (CExprList true) d (prs l ++ TClose :: rest) st) (Ok (VList vs, TClose :: rest, st')).
Proof.
  intros HS d st vs st' Hd Hp rest. destruct l as [|a l].
  - cbn in Hd. inversion Hd; subst. cbn [prs app]. apply L_exprlist_empty.
  - apply L_exprlist; [right; apply head_ok_app; apply pr_head; discriminate|].
    apply (HS d st vs st' Hd Hp ltac:(discriminate) [] (TClose :: rest) I).
Qed.

Lemma eval_print_ind : (forall a, Sa a) /\ (forall l, Sl l).
Proof.
  apply ast_asts_ind.
  - (* ANum *) intros x d st v st' Hd Hp. cbn in Hd. inversion Hd; subst. cbn [pr]. apply prim_all.
    exists (VNum x). split; [reflexivity|]. intros rest. apply L_prim_num. cbn in Hp. lia.
  - (* AStr *) intros s0 d st v st' Hd Hp. cbn in Hd. inversion Hd; subst. cbn [pr]. apply prim_all.
    exists (VOne (SStr s0)). split; [reflexivity|]. intros rest. apply L_prim_str. cbn in Hp. lia.
  - (* AVar *) intros v0 d st v st' Hd Hp. cbn [denote] in Hd. destruct (rho v0) as [x|] eqn:Hr; [|discriminate].
    inversion Hd; subst. cbn [pr]. apply prim_all. exists v. split; [reflexivity|]. intros rest.
    cbn [pdepth] in Hp. apply L_prim_var; [lia|]. apply (Hvars _ _ Hr). lia.
  - (* ANeg *) intros a IH d st v st' Hd Hp. cbn [denote] in Hd.
    bind_den Hd va st1 Ea. bind_num Hd x Ex. inversion Hd; subst.
    cbn [pdepth] in Hp. cbn [pr]. apply prim_all. eexists. split; [reflexivity|]. intros rest.
    destruct (IH (S d) st _ _ Ea ltac:(lia)) as ((v' & Hv & H4) & _).
    cbn [app]. eapply L_prim_neg; [lia | apply H4 |].
    rewrite (one_number_flat v' va Hv). exact Ex.
  - (* ABin *) intros op a IHa b IHb d st v st' Hd Hp. cbn [denote] in Hd.
    bind_den Hd va st1 Ea. bind_num Hd x Ex. bind_den Hd vb st2 Eb. bind_num Hd y Ey. inversion Hd; subst.
    cbn [pdepth] in Hp. apply one_number_ok_flat in Ex. apply one_number_ok_flat in Ey.
    assert (Ha : forall d', d' + pd a <= max_expr_depth -> _) by (intros d' Hd'; exact (IHa d' st va st1 Ea Hd')).
    assert (Hb : forall d', d' + pd b <= max_expr_depth -> _) by (intros d' Hd'; exact (IHb d' st1 vb st' Eb Hd')).
    rewrite Ex in Ha. rewrite Ey in Hb.
    destruct (Nat.eq_dec (bin_level op) 3) as [L3|L3].
    + (* multiplicative *)
      assert (Open : forall d', d' + Nat.max (pd a) (pd b) <= max_expr_depth ->
                F3 d' (pr 3 a ++ bin_token op :: pr 4 b) st (apply_bin X op x y) st').
      { intros d' Hd'. destruct (Ha d' ltac:(lia)) as (_ & _ & HaN). destruct (HaN x eq_refl) as (Ha3 & _).
        destruct (Hb d' ltac:(lia)) as (Hb4 & _). eapply open_mul; eassumption. }
      cbn [pr]. rewrite L3. cbn [Nat.ltb Nat.leb paren].
      apply node3; [lia | apply head_ok_app'; apply pr_head | apply Open; lia | apply Open; lia].
    + (* additive *)
      assert (L2 : bin_level op = 2) by (destruct op; cbn in *; congruence).
      assert (Open : forall d', d' + Nat.max (pd a) (pd b) <= max_expr_depth ->
                F2 d' (pr 2 a ++ bin_token op :: pr 3 b) st (apply_bin X op x y) st').
      { intros d' Hd'. destruct (Ha d' ltac:(lia)) as (_ & _ & HaN). destruct (HaN x eq_refl) as (_ & Ha2 & _).
        destruct (Hb d' ltac:(lia)) as (_ & _ & HbN). destruct (HbN y eq_refl) as (Hb3 & _). eapply open_add; eassumption. }
      cbn [pr]. rewrite L2. cbn [Nat.ltb Nat.leb paren].
      apply node2; [lia | apply head_ok_app'; apply pr_head | apply Open; lia | apply Open; lia].
  - (* ACmp *) intros op a IHa b IHb d st v st' Hd Hp. cbn [denote] in Hd.
    bind_den Hd va st1 Ea. bind_num Hd x Ex. bind_den Hd vb st2 Eb. bind_num Hd y Ey. inversion Hd; subst.
    cbn [pdepth] in Hp. apply one_number_ok_flat in Ex. apply one_number_ok_flat in Ey.
    assert (Ha : forall d', d' + pd a <= max_expr_depth -> _) by (intros d' Hd'; exact (IHa d' st va st1 Ea Hd')).
    assert (Hb : forall d', d' + pd b <= max_expr_depth -> _) by (intros d' Hd'; exact (IHb d' st1 vb st' Eb Hd')).
    rewrite Ex in Ha. rewrite Ey in Hb.
    assert (Open : forall d', d' + Nat.max (pd a) (pd b) <= max_expr_depth ->
              F1 d' (pr 2 a ++ TSym (cmp_name op) :: pr 2 b) st (of_bool (apply_cmp op x y)) st').
    { intros d' Hd'. destruct (Ha d' ltac:(lia)) as (_ & _ & HaN). destruct (HaN x eq_refl) as (_ & Ha2 & _).
      destruct (Hb d' ltac:(lia)) as (_ & _ & HbN). destruct (HbN y eq_refl) as (_ & Hb2 & _).
      eapply open_cmp; [apply cmp_name_ok | eassumption | eassumption]. }
    cbn [pr Nat.ltb Nat.leb paren].
    apply node1; [lia | apply head_ok_app'; apply pr_head | apply Open; lia | apply Open; lia].
  - (* ALog *) intros op a IHa b IHb d st v st' Hd Hp. cbn [denote] in Hd.
    bind_den Hd va st1 Ea. bind_num Hd x Ex. bind_den Hd vb st2 Eb. bind_num Hd y Ey. inversion Hd; subst.
    cbn [pdepth] in Hp. apply one_number_ok_flat in Ex. apply one_number_ok_flat in Ey.
    assert (Ha : forall d', d' + pd a <= max_expr_depth -> _) by (intros d' Hd'; exact (IHa d' st va st1 Ea Hd')).
    assert (Hb : forall d', d' + pd b <= max_expr_depth -> _) by (intros d' Hd'; exact (IHb d' st1 vb st' Eb Hd')).
    rewrite Ex in Ha. rewrite Ey in Hb.
    assert (Open : forall d', d' + Nat.max (pd a) (pd b) <= max_expr_depth ->
              F0 d' (pr 0 a ++ TSym (log_name op) :: pr 1 b) st (of_bool (apply_log op x y)) st').
    { intros d' Hd'. destruct (Ha d' ltac:(lia)) as (_ & _ & HaN). destruct (HaN x eq_refl) as (_ & _ & _ & Ha0).
      destruct (Hb d' ltac:(lia)) as (_ & _ & HbN). destruct (HbN y eq_refl) as (_ & _ & Hb1 & _).
      eapply open_log; [apply log_name_ok | apply log_name_not_cmp | eassumption | eassumption]. }
    cbn [pr Nat.ltb Nat.leb paren].
    apply node0; [lia | apply head_ok_app'; apply pr_head | apply Open; lia | apply Open; lia].
  - (* AList *) intros l IH d st v st' Hd Hp. rewrite den_AList in Hd.
    bind_den Hd vs st1 El. inversion Hd; subst. rewrite pd_AList in Hp. rewrite !pr_AList. apply prim_all.
    exists (VList vs). split; [reflexivity|]. intros rest. cbn [app]. rewrite <- app_assoc. cbn [app].
    apply L_prim_paren; [lia|]. apply (args_list l IH); [exact El | lia].
  - (* ACall *) intros name l IH d st v st' Hd Hp. rewrite den_ACall in Hd.
    bind_num Hd fn Ef. bind_den Hd vs st1 El. rewrite pd_ACall in Hp. rewrite !pr_ACall. apply prim_all.
    exists v. split; [reflexivity|]. intros rest. cbn [app]. rewrite <- app_assoc. cbn [app].
    eapply L_prim_call; [lia | exact Ef | apply (args_list l IH); [exact El | lia] | exact Hd].
  - (* ANil *) intros d st vs st' Hd Hp Hne. congruence.
  - (* ACons *) intros a IHa l IHl d st vs st' Hd Hp Hne out rest Hend. rewrite denl_cons in Hd.
    bind_den Hd va st1 Ea. bind_den Hd vl st2 El. inversion Hd; subst. rewrite pds_cons in Hp.
    destruct (IHa d st va st1 Ea ltac:(lia)) as (_ & HI & _).
    destruct l as [|b l'].
    + cbn in El. inversion El; subst. cbn [prs]. rewrite app_nil_r.
      destruct (HI rest (list_end_stops0 rest Hend)) as (v' & Hv & Hev).
      pose proof (L_listloop_last d out _ _ _ _ _ Hev) as HL. rewrite Hv in HL. apply HL.
      destruct rest as [|[] r]; try exact I; contradiction.
    + change (prs (ACons a (ACons b l'))) with (pr 0 a ++ TComma :: prs (ACons b l'))%list.
      rewrite <- app_assoc. cbn [app].
      destruct (HI (TComma :: prs (ACons b l') ++ rest)%list (comma_stops0 _)) as (v' & Hv & Hev).
      eapply L_listloop_more; [exact Hev|]. rewrite Hv. rewrite app_assoc.
      apply (IHl d st1 vl st' El ltac:(lia) ltac:(discriminate)). exact Hend.
Qed.

End WithCv.

(* a variable whose text is the printed form of a comma list of trees evaluates to their values; the trees'
   own variables are looked up with this variable marked as being expanded *)
Lemma lookup_print cv rho vdepth v s (l : @asts N) vs :
  getvar v = Some s -> tokenize X s = Ok (prs l) -> l <> ANil -> ~ In v cv ->
  vars_ok (v :: cv) rho vdepth ->
  (forall st, denote_list X rho l st = Ok (vs, st)) ->
  forall d st rest, d + pdepths vdepth l <= max_expr_depth ->
    ev (fun f => run f (CLookup v) cv d rest st) (Ok (VList vs, rest, st)).
Proof.
  intros Hg Ht Hne Hnin Hv Hden d st rest Hd.
  apply ev_body. unfold run_body.
  assert (M : mem_str v cv = false).
  { destruct (mem_str v cv) eqn:M; [|reflexivity]. apply mem_str_In in M. contradiction. }
  rewrite M, Hg, Ht. cbn [bind].
  destruct (pr_head) as [_ Hh]. specialize (Hh l Hne).
  destruct (prs l) as [|t toks] eqn:Ep; [contradiction|].
  destruct (eval_print_ind (v :: cv) rho vdepth Hv) as [_ HS].
  pose proof (HS l d st vs st (Hden st) Hd Hne [] [] I) as HL. rewrite app_nil_r, Ep in HL.
  pose proof (L_exprlist (v :: cv) d false _ _ _ (or_introl eq_refl) HL) as HE.
  eapply ev_bind; [exact HE|]. cbn beta iota. apply ev_const.
Qed.

End PrintP.
