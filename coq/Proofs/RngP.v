(* Lemmas about the random stream model (Model/Rng.v). *)
From Coq Require Import ZArith List Lia Bool.
From SvgdxModel Require Import Model.Rng.
Import ListNotations.
Open Scope Z_scope.

Lemma wrap32_range x : 0 <= wrap32 x < two32.
Proof. unfold wrap32, two32. apply Z.mod_pos_bound. reflexivity. Qed.
Lemma wrap64_range x : 0 <= wrap64 x < two64.
Proof. unfold wrap64, two64. apply Z.mod_pos_bound. reflexivity. Qed.

Lemma pcg_out_range s : 0 <= pcg_out s < two32.
Proof. unfold pcg_out. apply wrap32_range. Qed.

Lemma lcg_step_range g : 0 <= fst (lcg_step g) < two64 /\ snd (lcg_step g) = snd g.
Proof. unfold lcg_step. cbn [fst snd]. split; [apply wrap64_range | reflexivity]. Qed.

Lemma next_u32_range g : 0 <= fst (next_u32 g) < two32.
Proof. unfold next_u32. cbn [fst]. apply pcg_out_range. Qed.

(* the increment is odd: the LCG has full period *)
Lemma seed_inc_odd seed : Z.odd (snd (seed_from_u64 seed)) = true.
Proof.
  unfold seed_from_u64. destruct (seed_words 4 (wrap64 seed)) as [|w0 [|w1 [|w2 [|w3 [|w4 l]]]]]; try reflexivity.
  destruct (lcg_step_range (wrap64 (w0 + w1 * two32 + Z.lor (w2 + w3 * two32) 1), Z.lor (w2 + w3 * two32) 1)) as [_ E].
  rewrite E. cbn [snd]. rewrite <- Z.bit0_odd, Z.lor_spec. cbn. apply orb_true_r.
Qed.
Lemma seed_state_range seed : 0 <= fst (seed_from_u64 seed) < two64.
Proof.
  unfold seed_from_u64. destruct (seed_words 4 (wrap64 seed)) as [|w0 [|w1 [|w2 [|w3 [|w4 l]]]]];
    try (cbn; unfold two64; lia).
  apply lcg_step_range.
Qed.

(* random::<f32>() = m / 2^24 with 0 <= m < 2^24: a value in [0, 1) *)
Lemma random_m24_range g : 0 <= fst (random_m24 g) < 2 ^ 24.
Proof.
  unfold random_m24. destruct (next_u32 g) as [w g1] eqn:E. cbn [fst].
  pose proof (next_u32_range g) as R. rewrite E in R. cbn [fst] in R. unfold two32 in R.
  rewrite Z.shiftr_div_pow2 by lia. split.
  - apply Z.div_pos; lia.
  - apply Z.div_lt_upper_bound; lia.
Qed.

(* the widening-multiply method stays inside the requested range *)
Lemma lemire_bound w R : 0 <= w < two32 -> 1 <= R < two32 ->
  let m := w * R in let q := m / two32 in let r := m mod two32 in
  0 <= q /\ (two32 - R < r -> q + 1 <= R - 1) /\ q <= R - 1.
Proof.
  intros Hw HR m q r. unfold two32 in *.
  assert (Hm : m = 2 ^ 32 * q + r) by (unfold q, r; apply Z.div_mod; lia).
  assert (Hr : 0 <= r < 2 ^ 32) by (unfold r; apply Z.mod_pos_bound; lia).
  assert (Hm2 : 0 <= m <= (2 ^ 32 - 1) * R) by (unfold m; nia).
  split; [unfold q; apply Z.div_pos; lia|]. split; [intro H|]; nia.
Qed.

Lemma random_range_bounds lo hi g : lo <= hi -> - 2 ^ 31 <= lo -> hi < 2 ^ 31 ->
  lo <= fst (random_range_i32 lo hi g) <= hi.
Proof.
  intros H1 H2 H3. unfold random_range_i32.
  pose proof (next_u32_range g) as Rw. destruct (next_u32 g) as [w g1]. cbn [fst] in Rw.
  assert (Hrange : 1 <= hi - lo + 1 <= two32) by (unfold two32; lia).
  destruct (Z.eq_dec (hi - lo + 1) two32) as [E|NE].
  - (* the full i32 range *)
    assert (W : wrap32 (hi - lo + 1) = 0) by (rewrite E; unfold wrap32; apply Z.mod_same; unfold two32; lia).
    rewrite W. cbn [Z.eqb fst]. unfold to_i32, two32 in *.
    destruct (w <? 2 ^ 31) eqn:L; [apply Z.ltb_lt in L | apply Z.ltb_ge in L]; lia.
  - assert (W : wrap32 (hi - lo + 1) = hi - lo + 1) by (unfold wrap32; apply Z.mod_small; lia).
    rewrite W. set (R := hi - lo + 1) in *.
    assert (HR : 1 <= R < two32) by lia.
    destruct (R =? 0) eqn:Z0; [apply Z.eqb_eq in Z0; lia|].
    assert (NR : wrap32 (- R) = two32 - R).
    { unfold wrap32. replace (- R) with (two32 - R + (-1) * two32) by lia.
      rewrite Z.mod_add by (unfold two32; lia). apply Z.mod_small. lia. }
    rewrite NR. rewrite Z.shiftr_div_pow2 by lia.
    destruct (lemire_bound w R Rw HR) as [Q0 [Q1 Q2]]. fold two32. unfold wrap32.
    destruct (two32 - R <? (w * R) mod two32) eqn:B.
    + apply Z.ltb_lt in B. specialize (Q1 B). destruct (next_u32 g1) as [w2 g2]. cbn [fst].
      destruct (two32 <=? (w * R) mod two32 + Z.shiftr (w2 * R) 32); unfold R in *; lia.
    + cbn [fst]. unfold R in *. lia.
Qed.

(* running requests composes: no hidden state besides the generator pair *)
Lemma run_draws_app a b g :
  run_draws (a ++ b) g =
  let '(va, g1) := run_draws a g in let '(vb, g2) := run_draws b g1 in (va ++ vb, g2).
Proof.
  revert g. induction a as [|d a IH]; intro g; cbn [run_draws app].
  - destruct (run_draws b g); reflexivity.
  - destruct (draw_one d g) as [v g1]. rewrite IH.
    destruct (run_draws a g1) as [va g2]. destruct (run_draws b g2) as [vb g3]. reflexivity.
Qed.

(* every request advances the state by one or two LCG steps, whatever the values drawn *)
Lemma draw_one_state d g : snd (draw_one d g) = nth_state 1 g \/ snd (draw_one d g) = nth_state 2 g.
Proof.
  destruct d as [|lo hi|]; cbn [draw_one].
  - left. unfold random_m24, next_u32. reflexivity.
  - unfold random_range_i32, next_u32.
    destruct (wrap32 (hi - lo + 1) =? 0); [left; reflexivity|].
    destruct (wrap32 (- wrap32 (hi - lo + 1)) <? wrap32 (pcg_out (fst g) * wrap32 (hi - lo + 1)));
      [right | left]; reflexivity.
  - left. reflexivity.
Qed.

Lemma nth_state_succ n g : nth_state (S n) g = lcg_step (nth_state n g).
Proof. revert g. induction n as [|n IH]; intro g; [reflexivity|]. cbn [nth_state] in *. rewrite <- IH. reflexivity. Qed.

(* the k-th raw word depends on the seed and on k only - not on how many words are drawn in total *)
Lemma words_prefix_stable seed n :
  fst (run_draws (repeat DWord n) (seed_from_u64 seed)) = map (nth_word seed) (seq 0 n).
Proof.
  unfold nth_word. generalize (seed_from_u64 seed) as g.
  assert (G : forall n g k, fst (run_draws (repeat DWord n) (nth_state k g)) =
                            map (fun i => pcg_out (fst (nth_state i g))) (seq k n)).
  { clear. induction n as [|n IH]; intros g k; [reflexivity|].
    cbn [repeat run_draws draw_one next_u32 seq map].
    change (lcg_step (nth_state k g)) with (lcg_step (nth_state k g)). rewrite <- nth_state_succ.
    specialize (IH g (S k)). destruct (run_draws (repeat DWord n) (nth_state (S k) g)) as [vs g2].
    cbn [fst] in *. rewrite IH. reflexivity. }
  intro g. apply (G n g 0%nat).
Qed.

Lemma seed_well_formed seed : 0 <= fst (seed_from_u64 seed) < two64 /\ Z.odd (snd (seed_from_u64 seed)) = true.
Proof. split; [apply seed_state_range | apply seed_inc_odd]. Qed.
