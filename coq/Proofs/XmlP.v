(* Lemmas about the XML layer: escaping round trip, escaped values are clean, rendered tags and
   whole token streams read back as themselves. *)
From Coq Require Import String Ascii List Bool Arith Lia NArith.
From SvgdxModel Require Import Base.Str Base.Res Gen.Tables Model.Types Model.Xml Proofs.StrP.
Import ListNotations.
Open Scope string_scope.

(* ---------- generic string facts ---------- *)
Lemma app_assoc_str (a b c : string) : (a ++ b) ++ c = a ++ (b ++ c).
Proof. induction a as [|x a IH]; cbn; [reflexivity | now rewrite IH]. Qed.
Lemma length_app_str (a b : string) : String.length (a ++ b) = String.length a + String.length b.
Proof. induction a as [|x a IH]; cbn; [reflexivity | now rewrite IH]. Qed.
Lemma forall_char_app p a b : forall_char p (a ++ b) = (forall_char p a && forall_char p b)%bool.
Proof. induction a as [|x a IH]; cbn; [reflexivity | rewrite IH; now rewrite andb_assoc]. Qed.

Lemma break_at_app p a c r :
  forall_char (fun x => negb (p x)) a = true -> p c = true ->
  break_at p (a ++ String c r) = (a, Some (c, r)).
Proof.
  intros Ha Hc. induction a as [|x a IH]; cbn in *.
  - now rewrite Hc.
  - apply andb_true_iff in Ha as [Hx Ha]. apply negb_true_iff in Hx. rewrite Hx, (IH Ha). reflexivity.
Qed.
Lemma break_at_none p a : forall_char (fun x => negb (p x)) a = true -> break_at p a = (a, None).
Proof.
  intros Ha. induction a as [|x a IH]; cbn in *; [reflexivity|].
  apply andb_true_iff in Ha as [Hx Ha]. apply negb_true_iff in Hx. now rewrite Hx, (IH Ha).
Qed.
Lemma take_while_app p a c r :
  forall_char p a = true -> p c = false -> take_while p (a ++ String c r) = a.
Proof.
  intros Ha Hc. induction a as [|x a IH]; cbn in *; [now rewrite Hc|].
  apply andb_true_iff in Ha as [Hx Ha]. now rewrite Hx, (IH Ha).
Qed.
Lemma take_while_all p a : forall_char p a = true -> take_while p a = a.
Proof.
  intros Ha. induction a as [|x a IH]; cbn in *; [reflexivity|].
  apply andb_true_iff in Ha as [Hx Ha]. now rewrite Hx, (IH Ha).
Qed.
Lemma drop_while_app p a c r :
  forall_char p a = true -> p c = false -> drop_while p (a ++ String c r) = String c r.
Proof.
  intros Ha Hc. induction a as [|x a IH]; cbn in *; [now rewrite Hc|].
  apply andb_true_iff in Ha as [Hx Ha]. now rewrite Hx, (IH Ha).
Qed.
Lemma drop_while_all p a : forall_char p a = true -> drop_while p a = "".
Proof.
  intros Ha. induction a as [|x a IH]; cbn in *; [reflexivity|].
  apply andb_true_iff in Ha as [Hx Ha]. now rewrite Hx, (IH Ha).
Qed.
Lemma strip_prefix_app p r : strip_prefix p (p ++ r) = Some r.
Proof. induction p as [|x p IH]; cbn; [reflexivity | now rewrite Ascii.eqb_refl]. Qed.
Lemma strip_prefix_stable p : forall s y b, strip_prefix p s = Some b -> strip_prefix p (s ++ y) = Some (b ++ y).
Proof.
  induction p as [|q p IHp]; intros s y b H.
  - cbn in *. now injection H as <-.
  - destruct s as [|d s]; cbn in *; [discriminate|].
    destruct (Ascii.eqb q d); [|discriminate]. now apply IHp.
Qed.
Lemma strip_prefix_some_len p : forall s b, strip_prefix p s = Some b -> String.length p <= String.length s.
Proof.
  induction p as [|q p IHp]; intros s b H; [cbn; lia|].
  destruct s as [|d s]; cbn in *; [discriminate|]. destruct (Ascii.eqb q d); [|discriminate].
  specialize (IHp _ _ H). lia.
Qed.
Lemma strip_prefix_late p : forall s t r, strip_prefix p (s ++ t) = Some r -> strip_prefix p s = None ->
  String.length s < String.length p.
Proof.
  induction p as [|q p IHp]; intros s t r H1 H2; [cbn in H2; discriminate|].
  destruct s as [|d s]; cbn in *; [lia|].
  destruct (Ascii.eqb q d); [|discriminate]. specialize (IHp _ _ _ H1 H2). lia.
Qed.
Lemma find_sub_len p : forall s a b, find_sub p s = Some (a, b) -> String.length p <= String.length s.
Proof.
  induction s as [|d s IHs]; intros a b H.
  - cbn in H. destruct p; [cbn; lia | discriminate].
  - cbn [find_sub] in H. destruct (strip_prefix p (String d s)) as [r1|] eqn:E.
    + apply strip_prefix_some_len in E. exact E.
    + destruct (find_sub p s) as [[a1 b1]|] eqn:E2; [|discriminate].
      specialize (IHs _ _ eq_refl). cbn. lia.
Qed.
Lemma find_sub_stable pat y : forall x a b, find_sub pat x = Some (a, b) -> find_sub pat (x ++ y) = Some (a, b ++ y).
Proof.
  induction x as [|c x IH]; intros a b H.
  - cbn in H. destruct pat; cbn in H; [|discriminate]. injection H as <- <-. cbn. destruct y; reflexivity.
  - cbn [find_sub] in H. cbn [append find_sub].
    destruct (strip_prefix pat (String c x)) as [rest|] eqn:Hp.
    + injection H as <- <-.
      change (String c (x ++ y)) with (String c x ++ y). now rewrite (strip_prefix_stable _ _ y _ Hp).
    + destruct (find_sub pat x) as [[a' b']|] eqn:Hf; [|discriminate]. injection H as <- <-.
      rewrite (IH _ _ eq_refl).
      destruct (strip_prefix pat (String c (x ++ y))) as [r|] eqn:Hs; [|reflexivity].
      exfalso. change (String c (x ++ y)) with (String c x ++ y) in Hs.
      pose proof (strip_prefix_late _ _ _ _ Hs Hp) as H1.
      pose proof (find_sub_len _ _ _ _ Hf) as H2. cbn in H1. lia.
Qed.

(* ---------- escape / unescape ---------- *)
Definition special (c : ascii) : bool :=
  (Ascii.eqb c "<" || Ascii.eqb c ">" || Ascii.eqb c "&" || Ascii.eqb c "'" || Ascii.eqb c """")%bool.

Lemma unescape_escape_gen : forall s f, String.length (escape5 s) < f -> unescape f (escape5 s) = Some s.
Proof.
  induction s as [|c r IH]; intros f Hf.
  - destruct f; [cbn in Hf; lia | reflexivity].
  - cbn [escape5] in *. unfold esc_char in *.
    destruct (Ascii.eqb c "<") eqn:E1; [apply Ascii.eqb_eq in E1; subst c|].
    { cbn in Hf. destruct f; [lia|]. cbn. rewrite IH by lia. reflexivity. }
    destruct (Ascii.eqb c ">") eqn:E2; [apply Ascii.eqb_eq in E2; subst c|].
    { cbn in Hf. destruct f; [lia|]. cbn. rewrite IH by lia. reflexivity. }
    destruct (Ascii.eqb c "&") eqn:E3; [apply Ascii.eqb_eq in E3; subst c|].
    { cbn in Hf. destruct f; [lia|]. cbn. rewrite IH by lia. reflexivity. }
    destruct (Ascii.eqb c "'") eqn:E4; [apply Ascii.eqb_eq in E4; subst c|].
    { cbn in Hf. destruct f; [lia|]. cbn. rewrite IH by lia. reflexivity. }
    destruct (Ascii.eqb c """") eqn:E5; [apply Ascii.eqb_eq in E5; subst c|].
    { cbn in Hf. destruct f; [lia|]. cbn. rewrite IH by lia. reflexivity. }
    cbn in Hf. destruct f; [lia|]. cbn [append unescape]. rewrite E3. rewrite IH by lia. reflexivity.
Qed.
Lemma unesc_escape5 s : unesc (escape5 s) = Some s.
Proof. unfold unesc. apply unescape_escape_gen. lia. Qed.

(* an escaped value contains no angle bracket and no quote character *)
Definition quote_free (c : ascii) : bool :=
  negb (Ascii.eqb c "<" || Ascii.eqb c ">" || Ascii.eqb c "'" || Ascii.eqb c """")%bool.
Lemma escape5_clean s : forall_char quote_free (escape5 s) = true.
Proof.
  induction s as [|c r IH]; [reflexivity|]. cbn [escape5]. rewrite forall_char_app, IH, andb_true_r.
  unfold esc_char.
  destruct (Ascii.eqb c "<") eqn:E1; [reflexivity|].
  destruct (Ascii.eqb c ">") eqn:E2; [reflexivity|].
  destruct (Ascii.eqb c "&") eqn:E3; [reflexivity|].
  destruct (Ascii.eqb c "'") eqn:E4; [reflexivity|].
  destruct (Ascii.eqb c """") eqn:E5; [reflexivity|].
  cbn. unfold quote_free. now rewrite E1, E2, E4, E5.
Qed.

(* ---------- rendered tags read back ---------- *)
(* characters allowed in element / attribute names as far as the reader is concerned *)
Definition name_char (c : ascii) : bool :=
  negb (is_xml_ws c || Ascii.eqb c "/" || Ascii.eqb c ">" || Ascii.eqb c "=" || Ascii.eqb c """" || Ascii.eqb c "'" || Ascii.eqb c "<")%bool.
Definition name_ok (n : string) : bool := (nonempty n && forall_char name_char n)%bool.
Definition start_char_ok (n : string) : bool :=
  match n with String c _ => negb (Ascii.eqb c "!" || Ascii.eqb c "?" || Ascii.eqb c "/")%bool | _ => false end.
Definition tag_plain (c : ascii) : bool := negb (Ascii.eqb c ">" || is_quote c)%bool.

Definition pref (a : string) (o : option (string * string)) : option (string * string) :=
  match o with Some (x, y) => Some (a ++ x, y) | None => None end.
Lemma pref_pref a b o : pref a (pref b o) = pref (a ++ b) o.
Proof. destruct o as [[x y]|]; cbn; [now rewrite app_assoc_str | reflexivity]. Qed.
Lemma scan_plain a r : forall_char tag_plain a = true -> scan_tag (a ++ r) None = pref a (scan_tag r None).
Proof.
  intros Ha. induction a as [|c a IH]; cbn [append].
  - destruct (scan_tag r None) as [[x y]|]; reflexivity.
  - cbn in Ha. apply andb_true_iff in Ha as [Hc Ha]. unfold tag_plain in Hc.
    apply negb_true_iff, orb_false_iff in Hc as [Hgt Hq].
    cbn [scan_tag]. rewrite Hgt, Hq, (IH Ha). destruct (scan_tag r None) as [[x y]|]; reflexivity.
Qed.
Lemma scan_quoted q v r : forall_char (fun c => negb (Ascii.eqb c q)) v = true ->
  scan_tag (v ++ String q r) (Some q) = pref (v ++ String q "") (scan_tag r None).
Proof.
  intros Hv. induction v as [|c v IH]; cbn [append].
  - cbn [scan_tag]. rewrite Ascii.eqb_refl. destruct (scan_tag r None) as [[x y]|]; reflexivity.
  - cbn in Hv. apply andb_true_iff in Hv as [Hc Hv]. apply negb_true_iff in Hc.
    cbn [scan_tag]. rewrite Hc, (IH Hv). destruct (scan_tag r None) as [[x y]|]; reflexivity.
Qed.
Lemma quote_free_no_dq v : forall_char quote_free v = true -> forall_char (fun c => negb (Ascii.eqb c """")) v = true.
Proof.
  apply forall_char_impl. intros c H. unfold quote_free in H. apply negb_true_iff in H.
  apply orb_false_iff in H as [_ H]. now rewrite H.
Qed.
Lemma name_char_plain n : forall_char name_char n = true -> forall_char tag_plain n = true.
Proof.
  apply forall_char_impl. intros c H. unfold name_char in H. apply negb_true_iff in H.
  unfold tag_plain, is_quote. revert H. generalize (is_xml_ws c). intros w H.
  destruct w; [discriminate|].
  destruct (Ascii.eqb c "/"); [discriminate|]. destruct (Ascii.eqb c ">"); [discriminate|].
  destruct (Ascii.eqb c "="); [discriminate|]. destruct (Ascii.eqb c """"); [discriminate|].
  destruct (Ascii.eqb c "'"); [discriminate|]. reflexivity.
Qed.

Definition attrs_ok (a : list (string * string)) : Prop := Forall (fun kv => name_ok (fst kv) = true) a.

Lemma scan_render_attrs a r : attrs_ok a ->
  scan_tag (render_attrs a ++ r) None = pref (render_attrs a) (scan_tag r None).
Proof.
  intros Ha. induction a as [|[k v] a IH]; cbn [render_attrs fold_right fst snd].
  - cbn. destruct (scan_tag r None) as [[x y]|]; reflexivity.
  - inversion Ha as [|? ? Hk Ha']; subst. cbn [fst] in Hk. apply andb_true_iff in Hk as [_ Hk].
    fold (render_attrs a).
    repeat rewrite app_assoc_str.
    rewrite (scan_plain " "); [|reflexivity].
    rewrite (scan_plain k); [|now apply name_char_plain].
    change ("=""" ++ escape5 v ++ """" ++ render_attrs a ++ r)
      with ("=" ++ String """" (escape5 v ++ String """" (render_attrs a ++ r))).
    rewrite (scan_plain "="); [|reflexivity].
    cbn [scan_tag]. cbn [Ascii.eqb is_quote]. 
    change (Ascii.eqb """" ">") with false. cbn [orb].
    assert (Hq : is_quote """" = true) by reflexivity. rewrite Hq.
    rewrite scan_quoted; [|apply quote_free_no_dq, escape5_clean].
    rewrite (IH Ha').
    destruct (scan_tag r None) as [[x y]|]; cbn [pref]; [|reflexivity].
    cbn [append]. rewrite ?app_assoc_str. cbn [append]. rewrite ?app_assoc_str. cbn [append]. reflexivity.
Qed.

Lemma name_char_spec c : name_char c = true ->
  is_xml_ws c = false /\ Ascii.eqb c "/" = false /\ Ascii.eqb c ">" = false /\ Ascii.eqb c "=" = false /\
  Ascii.eqb c """" = false /\ Ascii.eqb c "'" = false /\ Ascii.eqb c "<" = false.
Proof.
  unfold name_char. generalize (is_xml_ws c). intros w H. apply negb_true_iff in H.
  destruct w; [discriminate|].
  destruct (Ascii.eqb c "/"); [discriminate|]. destruct (Ascii.eqb c ">"); [discriminate|].
  destruct (Ascii.eqb c "="); [discriminate|]. destruct (Ascii.eqb c """"); [discriminate|].
  destruct (Ascii.eqb c "'"); [discriminate|]. destruct (Ascii.eqb c "<"); [discriminate|].
  repeat split; reflexivity.
Qed.
Lemma name_char_not_end c : name_char c = true -> name_end c = false.
Proof.
  intros H. destruct (name_char_spec c H) as (H1 & H2 & H3 & H4 & _). unfold name_end. now rewrite H1, H2, H3, H4.
Qed.
Lemma name_char_not_ws c : name_char c = true -> is_xml_ws c = false.
Proof. intros H. now destruct (name_char_spec c H) as (H1 & _). Qed.
Lemma nonempty_cons n : nonempty n = true -> exists c r, n = String c r.
Proof. destruct n; [discriminate | eauto]. Qed.

Lemma parse_attrs_step f k v rest : name_ok k = true ->
  parse_attrs (S f) (" " ++ k ++ "=""" ++ escape5 v ++ """" ++ rest) =
  match parse_attrs f rest with Some more => Some ((k, v) :: more) | None => None end.
Proof.
  intros Hk. apply andb_true_iff in Hk as [Hne Hk].
  destruct (nonempty_cons _ Hne) as (c0 & k0 & ->).
  assert (Hc0 : name_char c0 = true) by (cbn in Hk; now apply andb_true_iff in Hk as [? _]).
  assert (Hk' : forall_char (fun c => negb (name_end c)) (String c0 k0) = true).
  { revert Hk. apply forall_char_impl. intros c Hc. now rewrite (name_char_not_end _ Hc). }
  remember (String "=" (String """" (escape5 v ++ String """" rest))) as tail eqn:Et.
  assert (E0 : " " ++ String c0 k0 ++ "=""" ++ escape5 v ++ """" ++ rest = String " " (String c0 (k0 ++ tail))).
  { subst tail. reflexivity. }
  rewrite E0. clear E0.
  assert (E1 : skip_xws (String " " (String c0 (k0 ++ tail))) = String c0 (k0 ++ tail)).
  { unfold skip_xws. cbn [drop_while]. change (is_xml_ws " ") with true. cbn iota.
    now rewrite (name_char_not_ws _ Hc0). }
  assert (E2 : take_while (fun c => negb (name_end c)) (String c0 (k0 ++ tail)) = String c0 k0).
  { subst tail. change (String c0 (k0 ++ ?t)) with (String c0 k0 ++ t). now apply take_while_app. }
  assert (E3 : drop_while (fun c => negb (name_end c)) (String c0 (k0 ++ tail)) = tail).
  { subst tail. change (String c0 (k0 ++ ?t)) with (String c0 k0 ++ t). now apply drop_while_app. }
  assert (E4 : skip_xws tail = tail) by (subst tail; reflexivity).
  assert (E5 : break_at (Ascii.eqb """") (escape5 v ++ String """" rest) = (escape5 v, Some (""""%char, rest))).
  { apply break_at_app; [|reflexivity]. generalize (quote_free_no_dq _ (escape5_clean v)).
    apply forall_char_impl. intros c Hc. now rewrite Ascii.eqb_sym. }
  cbn [parse_attrs]. rewrite E1, E2, E3, E4. subst tail.
  change (skip_xws (String """" (escape5 v ++ String """" rest))) with (String """" (escape5 v ++ String """" rest)).
  change (is_quote """") with true. cbn iota. rewrite E5, unesc_escape5. reflexivity.
Qed.

Lemma parse_attrs_render : forall a f, attrs_ok a -> List.length a < f ->
  parse_attrs f (render_attrs a) = Some a.
Proof.
  induction a as [|[k v] a IH]; intros f Ha Hf.
  - destruct f; [cbn in Hf; lia | reflexivity].
  - inversion Ha as [|? ? Hk Ha']; subst. cbn [fst] in Hk.
    destruct f; [cbn in Hf; lia|]. cbn [render_attrs fold_right fst snd]. fold (render_attrs a).
    rewrite parse_attrs_step by exact Hk. rewrite IH; [reflexivity | exact Ha' | cbn in Hf; lia].
Qed.

Lemma render_attrs_shape a : render_attrs a = "" \/ exists r, render_attrs a = String " " r.
Proof. destruct a as [|[k v] a]; [now left | right; cbn; eauto]. Qed.
Lemma length_render_attrs a : List.length a <= String.length (render_attrs a).
Proof.
  induction a as [|[k v] a IH]; [cbn; lia|]. cbn [render_attrs fold_right]. fold (render_attrs a).
  cbn [List.length]. rewrite !length_app_str. cbn. lia.
Qed.

Lemma parse_tag_content_render n a : name_ok n = true -> attrs_ok a -> nodup_keys a = true ->
  parse_tag_content (n ++ render_attrs a) = Some (n, a).
Proof.
  intros Hn Ha Hd. apply andb_true_iff in Hn as [Hne Hn]. unfold parse_tag_content.
  assert (Hnw : forall_char (fun ch => negb (is_xml_ws ch)) n = true).
  { revert Hn. apply forall_char_impl. intros c Hc. now rewrite (name_char_not_ws _ Hc). }
  destruct (render_attrs_shape a) as [E | [r E]].
  - rewrite E. rewrite app_nil_r_str. rewrite take_while_all, drop_while_all by exact Hnw.
    destruct a as [|[k v] a]; [|cbn in E; discriminate]. cbn. reflexivity.
  - rewrite E. rewrite take_while_app, drop_while_app by (exact Hnw || reflexivity).
    rewrite <- E. rewrite (parse_attrs_render a _ Ha); [now rewrite Hd|].
    rewrite length_app_str. pose proof (length_render_attrs a). lia.
Qed.

Lemma split_last_app a c : split_last (a ++ String c "") = Some (a, c).
Proof.
  induction a as [|x a IH]; [reflexivity|]. cbn [append split_last]. rewrite IH.
  destruct (a ++ String c "") eqn:E; [destruct a; discriminate | reflexivity].
Qed.
Lemma render_attrs_ends_quote : forall a k v, exists b, render_attrs ((k, v) :: a) = b ++ String """" "".
Proof.
  induction a as [|[k2 v2] a IH]; intros k v.
  - exists (" " ++ k ++ "=""" ++ escape5 v). cbn. rewrite ?app_assoc_str. cbn. rewrite ?app_assoc_str. reflexivity.
  - destruct (IH k2 v2) as (b & E). cbn [render_attrs fold_right fst snd] in *. rewrite E.
    exists (" " ++ k ++ "=""" ++ escape5 v ++ """" ++ b). cbn. rewrite ?app_assoc_str. cbn. rewrite ?app_assoc_str. reflexivity.
Qed.
Lemma split_last_name_attrs n a : name_ok n = true -> attrs_ok a ->
  exists b l, split_last (n ++ render_attrs a) = Some (b, l) /\ Ascii.eqb l "/" = false.
Proof.
  intros Hn Ha. destruct a as [|[k v] a].
  - cbn [render_attrs fold_right]. rewrite app_nil_r_str.
    apply andb_true_iff in Hn as [Hne Hn].
    assert (H : exists b l, n = b ++ String l "").
    { clear Hn. induction n as [|c n IH]; [discriminate|]. destruct n as [|d n].
      - exists "", c. reflexivity.
      - destruct (IH eq_refl) as (b & l & E). exists (String c b), l. cbn. now rewrite E. }
    destruct H as (b & l & ->). exists b, l. split; [apply split_last_app|].
    rewrite forall_char_app in Hn. apply andb_true_iff in Hn as [_ Hl]. cbn in Hl. rewrite andb_true_r in Hl.
    now destruct (name_char_spec l Hl) as (_ & H2 & _).
  - (* ends with the closing quote of the last attribute *)
    destruct (render_attrs_ends_quote a k v) as (b & E). rewrite E. exists (n ++ b), """"%char. rewrite <- app_assoc_str. split; [apply split_last_app | reflexivity].
Qed.

Lemma read_markup_tag c r : Ascii.eqb c "!" = false -> Ascii.eqb c "?" = false -> Ascii.eqb c "/" = false ->
  read_markup (String c r) =
  match scan_tag (String c r) None with
  | None => None
  | Some (ct, rest) =>
      match split_last ct with
      | Some (c1, "/"%char) => Some (match parse_tag_content c1 with
                                    | Some (n, a) => TEmpty n a | None => TRawEmpty c1 end, rest)
      | _ => Some (match parse_tag_content ct with
                   | Some (n, a) => TStart n a | None => TRawStart ct end, rest)
      end
  end.
Proof.
  intros H1 H2 H3. unfold read_markup. cbn [strip_prefix].
  rewrite (Ascii.eqb_sym "!" c), H1, (Ascii.eqb_sym "?" c), H2, (Ascii.eqb_sym "/" c), H3. reflexivity.
Qed.

Lemma read_markup_start n a rest : name_ok n = true -> start_char_ok n = true -> attrs_ok a -> nodup_keys a = true ->
  read_markup (n ++ render_attrs a ++ ">" ++ rest) = Some (TStart n a, rest).
Proof.
  intros Hn Hs Ha Hd. pose proof Hn as Hn'. apply andb_true_iff in Hn' as [Hne Hnc].
  destruct (nonempty_cons _ Hne) as (c & n' & ->). cbn in Hs. apply negb_true_iff in Hs.
  apply orb_false_iff in Hs as [Hs H3]. apply orb_false_iff in Hs as [H1 H2].
  change (String c n' ++ render_attrs a ++ ">" ++ rest) with (String c (n' ++ render_attrs a ++ ">" ++ rest)).
  rewrite read_markup_tag by assumption.
  change (String c (n' ++ render_attrs a ++ ">" ++ rest)) with (String c n' ++ render_attrs a ++ ">" ++ rest).
  rewrite (scan_plain (String c n')); [|now apply name_char_plain].
  rewrite scan_render_attrs by exact Ha.
  change (scan_tag (">" ++ rest) None) with (Some ("", rest)).
  cbn [pref]. rewrite !app_nil_r_str.
  destruct (split_last_name_attrs (String c n') a Hn Ha) as (b & l & E & Hl). rewrite E.
  rewrite parse_tag_content_render by assumption.
  destruct l as [[] [] [] [] [] [] [] []]; try reflexivity; discriminate.
Qed.
Lemma read_markup_empty n a rest : name_ok n = true -> start_char_ok n = true -> attrs_ok a -> nodup_keys a = true ->
  read_markup (n ++ render_attrs a ++ "/>" ++ rest) = Some (TEmpty n a, rest).
Proof.
  intros Hn Hs Ha Hd. pose proof Hn as Hn'. apply andb_true_iff in Hn' as [Hne Hnc].
  destruct (nonempty_cons _ Hne) as (c & n' & ->). cbn in Hs. apply negb_true_iff in Hs.
  apply orb_false_iff in Hs as [Hs H3]. apply orb_false_iff in Hs as [H1 H2].
  change (String c n' ++ render_attrs a ++ "/>" ++ rest) with (String c (n' ++ render_attrs a ++ "/>" ++ rest)).
  rewrite read_markup_tag by assumption.
  change (String c (n' ++ render_attrs a ++ "/>" ++ rest)) with (String c n' ++ render_attrs a ++ "/" ++ String ">" rest).
  rewrite (scan_plain (String c n')); [|now apply name_char_plain].
  rewrite scan_render_attrs by exact Ha.
  rewrite (scan_plain "/"); [|reflexivity].
  change (scan_tag (String ">" rest) None) with (Some ("", rest)).
  cbn [pref]. rewrite !app_nil_r_str.
  replace (String c n' ++ render_attrs a ++ "/") with ((String c n' ++ render_attrs a) ++ String "/" "") by (now rewrite app_assoc_str).
  rewrite split_last_app. rewrite parse_tag_content_render by assumption. reflexivity.
Qed.

(* ---------- every well-formed token reads back; whole token streams read back ---------- *)
Definition not_lt (c : ascii) : bool := negb (Ascii.eqb "<" c).
Definition not_gt (c : ascii) : bool := negb (Ascii.eqb ">" c).
Definition tok_wf (t : tok) : Prop :=
  match t with
  | TText s => nonempty s = true /\ forall_char not_lt s = true
  | TStart n a | TEmpty n a => name_ok n = true /\ start_char_ok n = true /\ attrs_ok a /\ nodup_keys a = true
  | TEnd n => name_ok n = true
  | TComment s => find_sub "-->" (s ++ "-->") = Some (s, "")
  | TCData s => find_sub "]]>" (s ++ "]]>") = Some (s, "")
  | TPI s => find_sub "?>" (s ++ "?>") = Some (s, "")
  | TDoctype s => forall_char not_gt s = true /\ forall_char not_lt s = true /\ skip_xws s = s
  | TRawStart _ | TRawEmpty _ => False
  end.
Definition is_text (t : tok) : bool := match t with TText _ => true | _ => false end.

Lemma rtrim_id n : forall_char (fun c => negb (is_xml_ws c)) n = true -> rtrim_xws n = n.
Proof.
  induction n as [|c n IH]; intros H; [reflexivity|]. cbn in H. apply andb_true_iff in H as [Hc Hn].
  apply negb_true_iff in Hc. cbn [rtrim_xws]. rewrite (IH Hn). destruct n; [now rewrite Hc | reflexivity].
Qed.

Lemma scan_dt_plain s rest : forall_char not_gt s = true -> forall_char not_lt s = true ->
  scan_dt (s ++ String ">" rest) 0 = Some (s, rest).
Proof.
  induction s as [|c s IH]; cbn [append forall_char scan_dt]; intros Hg Hl.
  - reflexivity.
  - apply andb_true_iff in Hg as [Hg1 Hg2]. apply andb_true_iff in Hl as [Hl1 Hl2].
    unfold not_gt in Hg1. unfold not_lt in Hl1. apply negb_true_iff in Hg1, Hl1.
    rewrite (Ascii.eqb_sym c ">"), Hg1, (Ascii.eqb_sym c "<"), Hl1. rewrite (IH Hg2 Hl2). reflexivity.
Qed.

Lemma read_markup_wf t : tok_wf t -> is_text t = false ->
  exists body, render t = String "<" body /\ forall rest, read_markup (body ++ rest) = Some (t, rest).
Proof.
  destruct t as [s|n a|n a|r|r|n|s|s|s|s]; cbn [tok_wf is_text]; intros H Ht; try discriminate; try contradiction.
  - destruct H as (Hn & Hs & Ha & Hd). exists (n ++ render_attrs a ++ ">"). split; [reflexivity|].
    intros rest. rewrite !app_assoc_str. now apply read_markup_start.
  - destruct H as (Hn & Hs & Ha & Hd). exists (n ++ render_attrs a ++ "/>"). split; [reflexivity|].
    intros rest. rewrite !app_assoc_str. now apply read_markup_empty.
  - exists ("/" ++ n ++ ">"). split; [reflexivity|]. intros rest.
    apply andb_true_iff in H as [_ Hn]. unfold read_markup. cbn [append strip_prefix Ascii.eqb Bool.eqb].
    cbn iota. rewrite app_assoc_str. cbn [append].
    rewrite break_at_app; [| | reflexivity].
    + rewrite rtrim_id; [reflexivity|]. revert Hn. apply forall_char_impl. intros c Hc. now rewrite (name_char_not_ws _ Hc).
    + revert Hn. apply forall_char_impl. intros c Hc. destruct (name_char_spec c Hc) as (_ & _ & H3 & _).
      now rewrite Ascii.eqb_sym, H3.
  - exists ("!--" ++ s ++ "-->"). split; [reflexivity|]. intros rest.
    unfold read_markup. cbn [append strip_prefix Ascii.eqb Bool.eqb]. cbn iota.
    rewrite app_assoc_str. rewrite <- (app_assoc_str s "-->" rest).
    rewrite (find_sub_stable _ rest _ _ _ H). reflexivity.
  - exists ("![CDATA[" ++ s ++ "]]>"). split; [reflexivity|]. intros rest.
    unfold read_markup. cbn [append strip_prefix Ascii.eqb Bool.eqb]. cbn iota.
    rewrite app_assoc_str. rewrite <- (app_assoc_str s "]]>" rest).
    rewrite (find_sub_stable _ rest _ _ _ H). reflexivity.
  - exists ("?" ++ s ++ "?>"). split; [reflexivity|]. intros rest.
    unfold read_markup. cbn [append strip_prefix Ascii.eqb Bool.eqb]. cbn iota.
    rewrite app_assoc_str. rewrite <- (app_assoc_str s "?>" rest).
    rewrite (find_sub_stable _ rest _ _ _ H). reflexivity.
  - destruct H as (Hs & Hl & Hk). exists ("!DOCTYPE " ++ s ++ ">"). split; [reflexivity|]. intros rest.
    unfold read_markup. cbn [append strip_prefix Ascii.eqb Bool.eqb]. cbn iota.
    rewrite app_assoc_str. cbn [append].
    change (String " " (s ++ String ">" rest)) with ((String " " s) ++ String ">" rest).
    rewrite scan_dt_plain.
    + unfold skip_xws in *. cbn [drop_while]. change (is_xml_ws " ") with true. cbn iota. now rewrite Hk.
    + cbn. exact Hs.
    + cbn. exact Hl.
Qed.

Fixpoint no_adj_text (ts : list tok) : Prop :=
  match ts with
  | TText _ :: ((TText _ :: _) as r) => False
  | _ :: r => no_adj_text r
  | [] => True
  end.

Lemma read_toks_text f c s : Ascii.eqb "<" c = false ->
  read_toks (S f) (String c s) =
  match break_at (Ascii.eqb "<") (String c s) with
  | (t, Some (_, rest)) => option_map (cons (TText t)) (read_toks f (String "<" rest))
  | (t, None) => Some [TText t] end.
Proof.
  intros H. destruct c as [[] [] [] [] [] [] [] []]; try reflexivity; discriminate.
Qed.

Lemma write_toks_head t r : tok_wf t -> is_text t = false -> exists body, write_toks (t :: r) = String "<" (body ++ write_toks r)
  /\ read_markup (body ++ write_toks r) = Some (t, write_toks r).
Proof.
  intros H Ht. destruct (read_markup_wf t H Ht) as (body & E & Hr). exists body. cbn [write_toks]. rewrite E. split; [reflexivity | apply Hr].
Qed.

Theorem read_write_toks : forall ts f, Forall tok_wf ts -> no_adj_text ts -> List.length ts < f ->
  read_toks f (write_toks ts) = Some ts.
Proof.
  induction ts as [|t r IH]; intros f Hwf Hadj Hf.
  - destruct f; [cbn in Hf; lia | reflexivity].
  - inversion Hwf as [|? ? Ht Hr]; subst. destruct f; [cbn in Hf; lia|]. cbn in Hf.
    destruct (is_text t) eqn:Et.
    + destruct t as [s| | | | | | | | |]; try discriminate. destruct Ht as (Hne & Hs).
      destruct (nonempty_cons _ Hne) as (c & s' & ->). cbn [write_toks render].
      assert (Hc : Ascii.eqb "<" c = false).
      { cbn in Hs. apply andb_true_iff in Hs as [Hc _]. now apply negb_true_iff in Hc. }
      change (String c s' ++ write_toks r) with (String c (s' ++ write_toks r)).
      rewrite read_toks_text by exact Hc.
      change (String c (s' ++ write_toks r)) with (String c s' ++ write_toks r).
      destruct r as [|t2 r2].
      * cbn [write_toks]. rewrite app_nil_r_str. rewrite break_at_none; [reflexivity | exact Hs].
      * assert (Ht2 : is_text t2 = false) by (destruct t2; cbn in Hadj; try reflexivity; contradiction).
        inversion Hr as [|? ? Hwf2 Hr2]; subst.
        destruct (write_toks_head t2 r2 Hwf2 Ht2) as (body & E & _). rewrite E.
        rewrite break_at_app; [| exact Hs | reflexivity]. rewrite <- E.
        rewrite IH; [reflexivity | exact Hr | | lia].
        destruct t2; cbn in Hadj |- *; try exact Hadj; discriminate.
    + destruct (write_toks_head t r Ht Et) as (body & E & Hrd). rewrite E. cbn [read_toks]. rewrite Hrd.
      rewrite IH; [reflexivity | exact Hr | | lia].
      destruct t; cbn in Hadj |- *; try exact Hadj; discriminate.
Qed.

Lemma length_render t : tok_wf t -> 1 <= String.length (render t).
Proof.
  destruct t; cbn [tok_wf render]; intros H; try contradiction;
    try (rewrite ?length_app_str; cbn; lia).
  destruct H as (Hne & _). destruct raw; [discriminate | cbn; lia].
Qed.
Lemma length_write_toks ts : Forall tok_wf ts -> List.length ts <= String.length (write_toks ts).
Proof.
  induction 1 as [|t r Ht Hr IH]; [cbn; lia|]. cbn [write_toks List.length]. rewrite length_app_str.
  pose proof (length_render t Ht). lia.
Qed.
Theorem read_xml_write_toks ts : Forall tok_wf ts -> no_adj_text ts -> read_xml (write_toks ts) = Some ts.
Proof.
  intros Hwf Hadj. unfold read_xml. apply read_write_toks; [exact Hwf | exact Hadj|].
  pose proof (length_write_toks ts Hwf). lia.
Qed.

(* ---------- the writer: coalescing and blank_line_remover keep tokens well formed ---------- *)
Lemma forall_char_rev_str p : forall s acc, forall_char p (rev_str s acc) = (forall_char p s && forall_char p acc)%bool.
Proof.
  induction s as [|c s IH]; intros acc; [reflexivity|]. cbn [rev_str]. rewrite IH. cbn.
  destruct (p c), (forall_char p s), (forall_char p acc); reflexivity.
Qed.
Lemma forall_char_srev p s : forall_char p (srev s) = forall_char p s.
Proof. unfold srev. rewrite forall_char_rev_str. cbn. now rewrite andb_true_r. Qed.
Lemma forall_char_drop_uws p : forall f r, forall_char p r = true -> forall_char p (drop_uws f r) = true.
Proof.
  induction f as [|f IH]; intros r H; [exact H|].
  destruct r as [|c0 [|c1 [|c2 r3]]]; cbn [drop_uws]; try exact H.
  - destruct (is_ws c0); [apply IH; reflexivity | exact H].
  - cbn in H. apply andb_true_iff in H as [H0 H1]. 
    destruct (is_ws c0); [apply IH; exact H1|].
    destruct (b 194 c1 && (b 133 c0 || b 160 c0))%bool; [apply IH; reflexivity | cbn; now rewrite H0, H1].
  - pose proof H as H'. cbn in H. apply andb_true_iff in H as [H0 H]. apply andb_true_iff in H as [H1 H].
    apply andb_true_iff in H as [H2 H3].
    destruct (is_ws c0); [apply IH; cbn; now rewrite H1, H2, H3|].
    destruct (b 194 c1 && (b 133 c0 || b 160 c0))%bool; [apply IH; cbn; now rewrite H2, H3|].
    destruct (b 225 c2 && b 154 c1 && b 128 c0)%bool; [apply IH; exact H3|].
    destruct (b 226 c2 && b 128 c1 && (Nat.leb 128 (byte_of c0) && Nat.leb (byte_of c0) 138 || b 168 c0 || b 169 c0 || b 175 c0))%bool; [apply IH; exact H3|].
    destruct (b 226 c2 && b 129 c1 && b 159 c0)%bool; [apply IH; exact H3|].
    destruct (b 227 c2 && b 128 c1 && b 128 c0)%bool; [apply IH; exact H3 | exact H'].
Qed.
Lemma forall_char_utrim_end p s : forall_char p s = true -> forall_char p (utrim_end s) = true.
Proof. intros H. unfold utrim_end. rewrite forall_char_srev. apply forall_char_drop_uws. now rewrite forall_char_srev. Qed.
Lemma forall_char_blr_go p : p nl = true -> forall s line, forall_char p s = true -> forall_char p line = true ->
  forall_char p (blr_go s line) = true.
Proof.
  intros Hnl. induction s as [|c s IH]; intros line Hs Hl; cbn [blr_go].
  - now rewrite forall_char_srev.
  - cbn in Hs. apply andb_true_iff in Hs as [Hc Hs]. destruct (Ascii.eqb c nl).
    + rewrite forall_char_app. rewrite forall_char_utrim_end by (now rewrite forall_char_srev).
      cbn [forall_char andb]. rewrite Hnl. cbn [andb]. apply IH; [exact Hs | reflexivity].
    + apply IH; [exact Hs | cbn; now rewrite Hc, Hl].
Qed.
Lemma nonempty_rev_str s acc : nonempty acc = true -> nonempty (rev_str s acc) = true.
Proof. revert acc. induction s as [|c s IH]; intros acc H; [exact H | cbn; now apply IH]. Qed.
Lemma nonempty_app_r (a b0 : string) : nonempty b0 = true -> nonempty (a ++ b0) = true.
Proof. destruct a; [trivial | reflexivity]. Qed.
Lemma nonempty_blr_go : forall s line, (nonempty s || nonempty line)%bool = true -> nonempty (blr_go s line) = true.
Proof.
  induction s as [|c s IH]; intros line H; cbn [blr_go].
  - cbn in H. destruct line; [discriminate|]. unfold srev. cbn. now apply nonempty_rev_str.
  - destruct (Ascii.eqb c nl); [apply nonempty_app_r; reflexivity | apply IH; cbn; now rewrite orb_true_r].
Qed.

Definition oev_ok (e : oev) : Prop :=
  match e with
  | OText s => forall_char not_lt s = true
  | ORaw t => tok_wf t /\ is_text t = false
  | _ => tok_wf (tok_of e)
  end.
Lemma tok_of_not_text e : match e with OText _ => False | _ => True end -> oev_ok e -> tok_wf (tok_of e) /\ is_text (tok_of e) = false.
Proof. destruct e; cbn; intros H Hok; try contradiction; try (split; [exact Hok | reflexivity]). exact Hok. Qed.

Definition flush (buf : string) : list tok := if nonempty buf then [TText (blank_line_remover buf)] else [].
Lemma flush_wf buf : forall_char not_lt buf = true -> Forall tok_wf (flush buf).
Proof.
  intros H. unfold flush. destruct (nonempty buf) eqn:E; [|constructor]. constructor; [|constructor]. split.
  - apply nonempty_blr_go. now rewrite E.
  - apply forall_char_blr_go; [reflexivity | exact H | reflexivity].
Qed.
Definition is_otext (e : oev) : bool := match e with OText _ => true | _ => false end.
Lemma coalesce_nontext e es buf : is_otext e = false -> coalesce (e :: es) buf = (flush buf ++ tok_of e :: coalesce es "")%list.
Proof. destruct e; intros H; try discriminate; reflexivity. Qed.
Lemma no_adj_cons_nontext t r : is_text t = false -> no_adj_text (t :: r) <-> no_adj_text r.
Proof. destruct t; intros H; try discriminate; cbn; tauto. Qed.
Lemma no_adj_text_then_nontext x t r : is_text t = false -> no_adj_text (TText x :: t :: r) <-> no_adj_text (t :: r).
Proof. destruct t; intros H; try discriminate; cbn; tauto. Qed.

Lemma coalesce_wf : forall es buf, Forall oev_ok es -> forall_char not_lt buf = true ->
  Forall tok_wf (coalesce es buf) /\ no_adj_text (coalesce es buf) /\
  (buf = "" -> match coalesce es buf with TText _ :: _ => match es with OText _ :: _ => True | _ => False end | _ => True end).
Proof.
  induction es as [|e es IH]; intros buf Hok Hb.
  - cbn [coalesce]. fold (flush buf). split; [now apply flush_wf|]. unfold flush.
    destruct (nonempty buf) eqn:E; cbn; [|tauto]. split; [exact I|]. intros ->. discriminate.
  - inversion Hok as [|? ? He Hes]; subst.
    destruct (is_otext e) eqn:Eo.
    + destruct e as [s| | | | | |]; try discriminate.
      cbn [coalesce]. cbn in He. destruct (IH (buf ++ s) Hes) as (H1 & H2 & H3); [now rewrite forall_char_app, Hb, He|].
      split; [exact H1|]. split; [exact H2|]. intros _. destruct (coalesce es (buf ++ s)) as [|[]]; exact I.
    + rewrite coalesce_nontext by exact Eo.
      assert (Hne : match e with OText _ => False | _ => True end) by (destruct e; try exact I; discriminate).
      destruct (tok_of_not_text e Hne He) as (Hw & Hnt).
      destruct (IH "" Hes eq_refl) as (H1 & H2 & H3).
      split; [apply Forall_app; split; [now apply flush_wf | constructor; assumption]|].
      split.
      * unfold flush. destruct (nonempty buf); cbn [app].
        -- apply no_adj_text_then_nontext; [exact Hnt|]. now apply no_adj_cons_nontext.
        -- now apply no_adj_cons_nontext.
      * intros ->. cbn [flush nonempty app]. destruct (tok_of e); try exact I; discriminate.
Qed.

Theorem write_to_reads_back es : Forall oev_ok es -> read_xml (write_to es) = Some (coalesce es "").
Proof.
  intros H. destruct (coalesce_wf es "" H eq_refl) as (H1 & H2 & _). unfold write_to. now apply read_xml_write_toks.
Qed.

(* ---------- blank_line_remover is idempotent ---------- *)
Lemma rev_str_app : forall s acc, rev_str s acc = srev s ++ acc.
Proof.
  unfold srev. induction s as [|c s IH]; intros acc; [reflexivity|]. cbn [rev_str].
  rewrite IH, (IH (String c "")), app_assoc_str. reflexivity.
Qed.
Lemma srev_cons c s : srev (String c s) = srev s ++ String c "".
Proof. unfold srev at 1. cbn [rev_str]. apply rev_str_app. Qed.
Lemma srev_app a b0 : srev (a ++ b0) = srev b0 ++ srev a.
Proof.
  induction a as [|c a IH]; cbn [append]; [now rewrite app_nil_r_str|].
  rewrite !srev_cons, IH, app_assoc_str. reflexivity.
Qed.
Lemma srev_involutive s : srev (srev s) = s.
Proof. induction s as [|c s IH]; [reflexivity|]. rewrite srev_cons, srev_app, IH. reflexivity. Qed.
Lemma length_srev s : String.length (srev s) = String.length s.
Proof. induction s as [|c s IH]; [reflexivity|]. rewrite srev_cons, length_app_str, IH. cbn. lia. Qed.

Lemma drop_uws_length : forall f r, String.length (drop_uws f r) <= String.length r.
Proof.
  induction f as [|f IH]; intros r; [cbn; lia|].
  assert (T : forall r', String.length r' <= String.length r -> String.length (drop_uws f r') <= String.length r).
  { intros r' H. eapply Nat.le_trans; [apply IH | exact H]. }
  destruct r as [|c0 [|c1 [|c2 r3]]]; cbn [drop_uws]; try (cbn; lia).
  - destruct (is_ws c0); [apply T; cbn; lia | cbn; lia].
  - destruct (is_ws c0); [apply T; cbn; lia|].
    destruct (b 194 c1 && (b 133 c0 || b 160 c0))%bool; [apply T; cbn; lia | cbn; lia].
  - destruct (is_ws c0); [apply T; cbn; lia|].
    destruct (b 194 c1 && (b 133 c0 || b 160 c0))%bool; [apply T; cbn; lia|].
    destruct (b 225 c2 && b 154 c1 && b 128 c0)%bool; [apply T; cbn; lia|].
    destruct (b 226 c2 && b 128 c1 && (Nat.leb 128 (byte_of c0) && Nat.leb (byte_of c0) 138 || b 168 c0 || b 169 c0 || b 175 c0))%bool; [apply T; cbn; lia|].
    destruct (b 226 c2 && b 129 c1 && b 159 c0)%bool; [apply T; cbn; lia|].
    destruct (b 227 c2 && b 128 c1 && b 128 c0)%bool; [apply T; cbn; lia | cbn; lia].
Qed.
(* with enough fuel the result is a fixed point of one more step, for any fuel *)
Lemma drop_uws_stable : forall f r g, String.length r <= f -> drop_uws g (drop_uws f r) = drop_uws f r.
Proof.
  induction f as [|f IH]; intros r g Hl.
  - destruct r; [|cbn in Hl; lia]. destruct g; reflexivity.
  - destruct r as [|c0 [|c1 [|c2 r3]]]; cbn [drop_uws].
    + destruct g; reflexivity.
    + destruct (is_ws c0) eqn:E0; [apply IH; cbn; lia|]. destruct g; [reflexivity|]. cbn [drop_uws]. now rewrite E0.
    + destruct (is_ws c0) eqn:E0; [apply IH; cbn in *; lia|].
      destruct (b 194 c1 && (b 133 c0 || b 160 c0))%bool eqn:E1; [apply IH; cbn; lia|].
      destruct g; [reflexivity|]. cbn [drop_uws]. now rewrite E0, E1.
    + destruct (is_ws c0) eqn:E0; [apply IH; cbn in *; lia|].
      destruct (b 194 c1 && (b 133 c0 || b 160 c0))%bool eqn:E1; [apply IH; cbn in *; lia|].
      destruct (b 225 c2 && b 154 c1 && b 128 c0)%bool eqn:E2; [apply IH; cbn in *; lia|].
      destruct (b 226 c2 && b 128 c1 && (Nat.leb 128 (byte_of c0) && Nat.leb (byte_of c0) 138 || b 168 c0 || b 169 c0 || b 175 c0))%bool eqn:E3; [apply IH; cbn in *; lia|].
      destruct (b 226 c2 && b 129 c1 && b 159 c0)%bool eqn:E4; [apply IH; cbn in *; lia|].
      destruct (b 227 c2 && b 128 c1 && b 128 c0)%bool eqn:E5; [apply IH; cbn in *; lia|].
      destruct g; [reflexivity|]. cbn [drop_uws]. now rewrite E0, E1, E2, E3, E4, E5.
Qed.
Lemma utrim_end_idem s : utrim_end (utrim_end s) = utrim_end s.
Proof.
  unfold utrim_end. rewrite srev_involutive. f_equal. apply drop_uws_stable. now rewrite length_srev.
Qed.

Definition not_nl (c : ascii) : bool := negb (Ascii.eqb c nl).
Lemma blr_go_line : forall l line rest, forall_char not_nl l = true ->
  blr_go (l ++ String nl rest) line = utrim_end (srev line ++ l) ++ String nl (blr_go rest "").
Proof.
  induction l as [|c l IH]; intros line rest Hl.
  - cbn [append blr_go]. rewrite Ascii.eqb_refl, app_nil_r_str. reflexivity.
  - cbn in Hl. apply andb_true_iff in Hl as [Hc Hl]. apply negb_true_iff in Hc.
    cbn [append blr_go]. rewrite Hc, (IH _ _ Hl), srev_cons, app_assoc_str. reflexivity.
Qed.
Lemma blr_go_last : forall l line, forall_char not_nl l = true -> blr_go l line = srev line ++ l.
Proof.
  induction l as [|c l IH]; intros line Hl; cbn [blr_go]; [now rewrite app_nil_r_str|].
  cbn in Hl. apply andb_true_iff in Hl as [Hc Hl]. apply negb_true_iff in Hc.
  rewrite Hc, (IH _ Hl), srev_cons, app_assoc_str. reflexivity.
Qed.
(* every string is a (possibly empty) sequence of newline-terminated lines followed by a newline-free rest *)
Lemma split_first_line s : (forall_char not_nl s = true) \/
  exists l rest, s = l ++ String nl rest /\ forall_char not_nl l = true /\ String.length rest < String.length s.
Proof.
  induction s as [|c s IH]; [now left|]. destruct (Ascii.eqb c nl) eqn:E.
  - right. apply Ascii.eqb_eq in E. subst c. exists "", s. cbn. repeat split; lia.
  - destruct IH as [H | (l & rest & -> & Hl & Hlen)].
    + left. cbn. unfold not_nl at 1. now rewrite E.
    + right. exists (String c l), rest. cbn. repeat split; [unfold not_nl at 1; now rewrite E, Hl|].
      rewrite length_app_str in *. cbn in *. lia.
Qed.
Lemma utrim_end_not_nl l : forall_char not_nl l = true -> forall_char not_nl (utrim_end l) = true.
Proof. apply forall_char_utrim_end. Qed.
Theorem blank_line_remover_idem : forall s, blank_line_remover (blank_line_remover s) = blank_line_remover s.
Proof.
  intros s. remember (String.length s) as n eqn:En. revert s En.
  induction n as [n IHn] using lt_wf_ind. intros s En. unfold blank_line_remover.
  destruct (split_first_line s) as [H | (l & rest & -> & Hl & Hlen)].
  - rewrite (blr_go_last s "" H). cbn [srev rev_str append]. now rewrite (blr_go_last s "" H).
  - rewrite (blr_go_line l "" rest Hl). cbn [srev rev_str append].
    rewrite (blr_go_line (utrim_end l) "" _ (utrim_end_not_nl _ Hl)). cbn [srev rev_str append].
    rewrite utrim_end_idem. f_equal. f_equal.
    apply (IHn (String.length rest)); [subst n; exact Hlen | reflexivity].
Qed.
