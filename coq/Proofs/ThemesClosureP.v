(* C20: referential closure of the emitted auto-styles.  Every "(#id" reference found in an emitted
   rule or definition is defined exactly once (id="...") among the emitted definitions, and every
   emitted definition is referenced.  Generic lemmas over all class lists + finite side conditions
   on the generated tables (vm_compute). *)
From Coq Require Import String Ascii List Bool ZArith Lia Permutation.
From SvgdxModel Require Import Base.Str Base.Res Num.F32 Gen.Tables Model.Themes Model.ThemesVocab Proofs.ThemesP.
Import ListNotations.
Open Scope string_scope.
Open Scope list_scope.

(* ------------------------------------------------------------------ scanners and inert text *)
Definition no_char (ch : ascii) (s : string) : bool := negb (contains_char ch s).

Lemma no_char_cons ch a s : no_char ch (String a s) = true -> Ascii.eqb ch a = false /\ no_char ch s = true.
Proof. unfold no_char. cbn. rewrite negb_orb, andb_true_iff, negb_true_iff. tauto. Qed.

Lemma no_char_app ch a b : no_char ch (a ++ b)%string = (no_char ch a && no_char ch b)%bool.
Proof.
  unfold no_char. induction a as [|x a IH]; cbn; [reflexivity|].
  rewrite !negb_orb, IH, andb_assoc. reflexivity.
Qed.

Lemma url_refs_skip v X : no_char "(" v = true -> url_refs (v ++ X)%string = url_refs X.
Proof.
  induction v as [|a v IH]; intro H; [reflexivity|].
  apply no_char_cons in H. destruct H as [Ha Hv].
  change (String a v ++ X)%string with (String a (v ++ X)).
  cbn [url_refs strip_prefix]. rewrite Ha. cbn [app]. apply IH. exact Hv.
Qed.

Lemma def_ids_skip v X : no_char " " v = true -> def_ids (v ++ X)%string = def_ids X.
Proof.
  induction v as [|a v IH]; intro H; [reflexivity|].
  apply no_char_cons in H. destruct H as [Ha Hv].
  change (String a v ++ X)%string with (String a (v ++ X)).
  cbn [def_ids strip_prefix id_attr]. rewrite Ha. cbn [app]. apply IH. exact Hv.
Qed.

Lemma take_until q v X : no_char q v = true ->
  take_while (fun ch => negb (Ascii.eqb ch q)) (v ++ String q X)%string = v.
Proof.
  induction v as [|a v IH]; intro H.
  - cbn. rewrite Ascii.eqb_refl. reflexivity.
  - apply no_char_cons in H. destruct H as [Ha Hv].
    change (String a v ++ String q X)%string with (String a (v ++ String q X)).
    cbn [take_while]. rewrite Ascii.eqb_sym, Ha. cbn [negb]. f_equal. apply IH. exact Hv.
Qed.

Ltac scan :=
  repeat first [ rewrite url_refs_skip by assumption | rewrite def_ids_skip by assumption
               | rewrite take_until by assumption
               | progress cbn [url_refs def_ids id_attr strip_prefix append Ascii.eqb Bool.eqb take_while negb app] ].

(* text that no scanner reacts to *)
Definition inert (s : string) : bool :=
  (no_char "(" s && no_char ")" s && no_char " " s && no_char """" s)%bool.
Lemma inert_parts s : inert s = true ->
  no_char "(" s = true /\ no_char ")" s = true /\ no_char " " s = true /\ no_char """" s = true.
Proof. unfold inert. rewrite !andb_true_iff. tauto. Qed.
Lemma inert_app a b : inert (a ++ b)%string = (inert a && inert b)%bool.
Proof.
  unfold inert. rewrite !no_char_app.
  destruct (no_char "(" a), (no_char ")" a), (no_char " " a), (no_char """" a),
    (no_char "(" b), (no_char ")" b), (no_char " " b); reflexivity.
Qed.

Lemma digits_no_char ch d : is_digit ch = false -> forall_char is_digit d = true -> no_char ch d = true.
Proof.
  intro Hc. induction d as [|a d IH]; [reflexivity|]. cbn. rewrite andb_true_iff. intros [Ha Hd].
  unfold no_char in *. cbn. rewrite negb_orb, andb_true_iff. split; [|apply IH; exact Hd].
  apply negb_true_iff. destruct (Ascii.eqb ch a) eqn:E; [|reflexivity].
  apply Ascii.eqb_eq in E. subst. congruence.
Qed.
Lemma digits_inert d : forall_char is_digit d = true -> inert d = true.
Proof.
  intro H. unfold inert. rewrite !digits_no_char; try exact H; reflexivity.
Qed.

(* ------------------------------------------------------------------ refs / ids of item lists *)
Lemma is_nil_spec {A} (l : list A) : is_nil l = true -> l = [].
Proof. destruct l; [reflexivity | discriminate]. Qed.

Lemma refs_app a b : refs_of (a ++ b) = refs_of a ++ refs_of b.
Proof. apply flat_map_app. Qed.
Lemma ids_app a b : ids_of (a ++ b) = ids_of a ++ ids_of b.
Proof. apply flat_map_app. Qed.
Lemma refs_flat_map {A} (f : A -> list item) l : refs_of (flat_map f l) = flat_map (fun x => refs_of (f x)) l.
Proof. induction l as [|x r IH]; cbn; [reflexivity|]. rewrite refs_app, IH. reflexivity. Qed.
Lemma ids_flat_map {A} (f : A -> list item) l : ids_of (flat_map f l) = flat_map (fun x => ids_of (f x)) l.
Proof. induction l as [|x r IH]; cbn; [reflexivity|]. rewrite ids_app, IH. reflexivity. Qed.


Lemma items_clean_spec l : items_clean l = true -> refs_of l = [] /\ ids_of l = [].
Proof.
  induction l as [|i l IH]; [cbn; auto|]. intro H. cbn [items_clean forallb] in H.
  apply andb_true_iff in H. destruct H as [Hi Hl].
  destruct (IH Hl) as [R D]. unfold clean in Hi. apply andb_true_iff in Hi. destruct Hi as [H1 H2].
  apply is_nil_spec in H1. apply is_nil_spec in H2.
  unfold refs_of, ids_of in *. cbn [flat_map]. rewrite H1, H2, R, D.
  destruct (is_def i); auto.
Qed.

Lemma guarded_clean {A} (key : A -> string) body rows cls :
  rows_clean body rows = true -> refs_of (guarded cls key body rows) = [] /\ ids_of (guarded cls key body rows) = [].
Proof.
  unfold rows_clean, guarded. induction rows as [|r rows IH]; cbn; [auto|].
  rewrite andb_true_iff. intros [Hr Hrows]. destruct (IH Hrows) as [R D].
  rewrite refs_app, ids_app, R, D, !app_nil_r.
  destruct (has cls (key r)); [apply items_clean_spec; exact Hr | auto].
Qed.

(* guarded rows whose bodies reference exactly what they define *)
Lemma guarded_incl {A} (key : A -> string) body rows cls :
  (forall r, In r rows -> incl (refs_of (body r)) (ids_of (body r)) /\ incl (ids_of (body r)) (refs_of (body r))) ->
  incl (refs_of (guarded cls key body rows)) (ids_of (guarded cls key body rows)) /\
  incl (ids_of (guarded cls key body rows)) (refs_of (guarded cls key body rows)).
Proof.
  unfold guarded. induction rows as [|r rows IH]; intro H; cbn; [split; apply incl_refl|].
  rewrite refs_app, ids_app.
  assert (Hr := H r (or_introl eq_refl)).
  assert (Hrows : forall r', In r' rows -> _) by (intros r' Hr'; exact (H r' (or_intror Hr'))).
  destruct (IH Hrows) as [I1 I2].
  destruct (has cls (key r)); cbn.
  - destruct Hr as [J1 J2]. split; apply incl_app; try (apply incl_appl; assumption); apply incl_appr; assumption.
  - split; assumption.
Qed.

Lemma guarded_ids_sub {A} (key : A -> string) body rows cls x :
  In x (ids_of (guarded cls key body rows)) -> In x (flat_map (fun r => ids_of (body r)) rows).
Proof.
  unfold guarded. rewrite ids_flat_map, !in_flat_map. intros [r [Hr Hx]].
  exists r. split; [exact Hr|]. destruct (has cls (key r)); [exact Hx | destruct Hx].
Qed.

Lemma guarded_ids_nodup {A} (key : A -> string) body rows cls :
  NoDup (flat_map (fun r => ids_of (body r)) rows) -> NoDup (ids_of (guarded cls key body rows)).
Proof.
  unfold guarded. rewrite ids_flat_map. induction rows as [|r rows IH]; cbn; [auto|]. intro N.
  assert (N2 : NoDup (flat_map (fun r0 => ids_of (body r0)) rows)).
  { clear IH. induction (ids_of (body r)) as [|a l IHl]; [exact N|]. inversion N; auto. }
  destruct (has cls (key r)); cbn; [|apply IH; exact N2].
  (* sub-list of a NoDup concatenation *)
  revert N. generalize (ids_of (body r)) as l. induction l as [|a l IHl]; cbn; intro N; [apply IH; exact N2|].
  inversion N as [|? ? Hn Nl]; subst. constructor; [|apply IHl; exact Nl].
  intro Hin. apply Hn. apply in_app_iff in Hin. apply in_app_iff. destruct Hin as [Hin|Hin]; [left; exact Hin|right].
  apply in_flat_map in Hin. destruct Hin as [r' [Hr' Hx]]. apply in_flat_map. exists r'. split; [exact Hr'|].
  destruct (has cls (key r')); [exact Hx | destruct Hx].
Qed.

(* ------------------------------------------------------------------ the theme constants are a finite table *)
Definition all_tconsts : list tconsts :=
  flat_map (fun row : string * (string * string * string * string * option string) =>
              match theme_consts (fst row) with Some tc => [tc] | None => [] end) theme_table.

Lemma assoc_in {A} k (l : list (string * A)) v : assoc k l = Some v -> In (k, v) l.
Proof.
  induction l as [|[k' v'] l IH]; cbn; [discriminate|].
  destruct (String.eqb k k') eqn:E; [|intro H; right; apply IH; exact H].
  apply String.eqb_eq in E. subst. intro H. inversion H. left; reflexivity.
Qed.

Lemma theme_consts_in name tc : theme_consts name = Some tc -> In tc all_tconsts.
Proof.
  intro H. unfold all_tconsts. apply in_flat_map.
  assert (H' := H). unfold theme_consts in H'.
  destruct (assoc name theme_table) as [v|] eqn:E; [|discriminate].
  apply assoc_in in E. exists (name, v). split; [exact E|]. cbn [fst]. rewrite H. left; reflexivity.
Qed.

(* ------------------------------------------------------------------ pattern classes *)
Lemma strip_prefix_app p : forall s r, strip_prefix p s = Some r -> s = (p ++ r)%string.
Proof.
  induction p as [|a p IH]; intros s r; cbn; [intro H; inversion H; reflexivity|].
  destruct s as [|b s]; [discriminate|]. destruct (Ascii.eqb a b) eqn:E; [|discriminate].
  apply Ascii.eqb_eq in E. subst b. intro H. rewrite (IH _ _ H). reflexivity.
Qed.
Lemma strip_prefix_id p r : strip_prefix p (p ++ r)%string = Some r.
Proof. induction p as [|a p IH]; cbn; [reflexivity|]. rewrite Ascii.eqb_refl. exact IH. Qed.
Lemma length_app a b : String.length (a ++ b)%string = (String.length a + String.length b)%nat.
Proof. induction a as [|x a IH]; cbn; [reflexivity|]. rewrite IH. reflexivity. Qed.

(* two prefixes of the same string: one is a prefix of the other *)
Lemma prefix_cases : forall p q c s1 s2,
  strip_prefix p c = Some s1 -> strip_prefix q c = Some s2 ->
  (exists d, strip_prefix p q = Some d /\ s1 = (d ++ s2)%string) \/
  (exists d, strip_prefix q p = Some d /\ s2 = (d ++ s1)%string).
Proof.
  induction p as [|a p IH]; intros q c s1 s2 H1 H2.
  - left. exists q. cbn in H1. inversion H1; subst. split; [reflexivity | apply strip_prefix_app; exact H2].
  - destruct q as [|b q].
    + right. exists (String a p). cbn in H2. inversion H2; subst. split; [reflexivity | apply strip_prefix_app; exact H1].
    + destruct c as [|x c]; [discriminate|]. cbn in H1, H2 |- *.
      destruct (Ascii.eqb a x) eqn:E1; [|discriminate]. destruct (Ascii.eqb b x) eqn:E2; [|discriminate].
      apply Ascii.eqb_eq in E1. apply Ascii.eqb_eq in E2. subst. rewrite Ascii.eqb_refl.
      eapply IH; eauto.
Qed.

Lemma digits_nonneg : forall s acc cnt, (0 <= acc)%Z -> (0 <= fst (fst (digits s acc cnt)))%Z.
Proof.
  induction s as [|c s IH]; intros acc cnt H; cbn; [exact H|].
  destruct (is_digit c) eqn:D; [|exact H]. apply IH.
  unfold is_digit, byte_of in D. apply andb_true_iff in D. destruct D as [D1 _]. apply Nat.leb_le in D1.
  unfold dval. lia.
Qed.

Lemma parse_u32_spec s n : parse_u32 s = Some n ->
  (0 <= n)%Z /\ inert s = true /\ match s with String a _ => is_digit a = true \/ a = "+"%char | EmptyString => False end.
Proof.
  unfold parse_u32. destruct s as [|a r]; [discriminate|].
  destruct (Ascii.eqb a "+") eqn:E.
  - apply Ascii.eqb_eq in E. subst a. destruct r as [|b r]; [discriminate|].
    destruct (forall_char is_digit (String b r)) eqn:F; [|discriminate].
    pose proof (digits_nonneg (String b r) 0 0 (Z.le_refl 0)) as P.
    destruct (digits (String b r) 0 0) as [[v x] y]. cbn [fst] in P.
    destruct (Z.ltb v (2 ^ 32)); [|discriminate]. intro H. inversion H; subst.
    split; [exact P|]. split; [|right; reflexivity].
    change (String "+" (String b r)) with ("+" ++ String b r)%string. rewrite inert_app, (digits_inert _ F). reflexivity.
  - destruct (forall_char is_digit (String a r)) eqn:F; [|discriminate].
    pose proof (digits_nonneg (String a r) 0 0 (Z.le_refl 0)) as P.
    destruct (digits (String a r) 0 0) as [[v x] y]. cbn [fst] in P.
    destruct (Z.ltb v (2 ^ 32)); [|discriminate]. intro H. inversion H; subst.
    split; [exact P|]. split; [apply digits_inert; exact F|]. left. cbn in F. apply andb_true_iff in F. tauto.
Qed.

Definition spacings : list Z := map Z.of_nat (seq 0 (S (Z.to_nat pattern_max_spacing))).
Lemma in_spacings n : (0 <= n <= pattern_max_spacing)%Z -> In n spacings.
Proof.
  intro H. unfold spacings. apply in_map_iff. exists (Z.to_nat n). split; [lia|]. apply in_seq. lia.
Qed.

Lemma get_spacing_spec p c n : get_spacing p c = Some n ->
  exists suf, c = (p ++ suf)%string /\ inert suf = true /\ In n spacings /\
              match suf with String a _ => is_digit a = true \/ a = "+"%char | EmptyString => False end.
Proof.
  unfold get_spacing. destruct (strip_prefix p c) as [suf|] eqn:E; [|discriminate].
  destruct (parse_u32 suf) as [m|] eqn:P; [|discriminate].
  destruct (Z.leb m pattern_max_spacing) eqn:L; [|discriminate]. intro H. inversion H; subst m.
  apply parse_u32_spec in P. destruct P as [P1 [P2 P3]]. apply Z.leb_le in L.
  exists suf. split; [apply strip_prefix_app; exact E|]. split; [exact P2|]. split; [apply in_spacings; lia | exact P3].
Qed.

(* trim_start_matches leaves nothing to trim *)
Lemma trim_no_prefix pat : pat <> "" -> forall fuel s, (String.length s <= fuel)%nat ->
  strip_prefix pat (trim_start_matches fuel pat s) = None.
Proof.
  intro Hp. destruct pat as [|p0 p']; [congruence|]. induction fuel as [|f IH]; intros s L.
  - destruct s; [reflexivity | cbn in L; lia].
  - cbn [trim_start_matches]. destruct (strip_prefix (String p0 p') s) as [r|] eqn:E; [|exact E].
    apply IH. apply strip_prefix_app in E. subst s. rewrite length_app in L. cbn in L. lia.
Qed.

(* finite side conditions on the pattern table *)
Definition family_row := (string * (string * option Z))%type.
Definition base_ok (row : family_row) : bool :=
  match pattern_id_strip, strip_prefix pattern_id_strip (fst row) with
  | String p0 _, Some (String ch _) => negb (Ascii.eqb p0 ch)
  | _, _ => false
  end.
Definition spec_ok (row : family_row) : bool :=
  (is_some (strip_prefix (fst row) (pattern_spec (fst row))) && inert (pattern_spec (fst row)) && inert (fst row))%bool.
Definition cross_ok (A B : family_row) : bool :=
  (negb (is_some (get_spacing (pattern_spec (fst A)) (fst B))) &&
   (String.eqb (fst A) (fst B) ||
    match strip_prefix (pattern_spec (fst A)) (pattern_spec (fst B)) with
    | Some (String ch _) => negb (is_digit ch || Ascii.eqb ch "+")
    | Some EmptyString => false
    | None => true
    end))%bool.
Fixpoint nodupb (l : list string) : bool :=
  match l with [] => true | x :: r => (negb (mem_str x r) && nodupb r)%bool end.
Lemma nodupb_spec l : nodupb l = true -> NoDup l.
Proof.
  induction l as [|x r IH]; cbn; [constructor|]. rewrite andb_true_iff, negb_true_iff. intros [H1 H2].
  constructor; [|apply IH; exact H2]. intro H. apply mem_str_In in H. congruence.
Qed.
Definition pattern_table_ok : bool :=
  (forallb base_ok pattern_table && forallb spec_ok pattern_table &&
   forallb (fun A => forallb (cross_ok A) pattern_table) pattern_table &&
   nodupb (map fst pattern_table) && Z.leb 0 pattern_base_spacing && Z.leb pattern_base_spacing pattern_max_spacing)%bool.
Lemma pattern_table_ok_true : pattern_table_ok = true.
Proof. vm_compute. reflexivity. Qed.

Section Family.
  Context (row : family_row) (Hrow : In row pattern_table).
  Let OK := pattern_table_ok_true.

  Lemma row_base_ok : base_ok row = true.
  Proof.
    pose proof OK as H. unfold pattern_table_ok in H. rewrite !andb_true_iff in H.
    destruct H as [[[[[H _] _] _] _] _]. rewrite forallb_forall in H. apply H. exact Hrow.
  Qed.
  Lemma row_spec_ok : spec_ok row = true.
  Proof.
    pose proof OK as H. unfold pattern_table_ok in H. rewrite !andb_true_iff in H.
    destruct H as [[[[[_ H] _] _] _] _]. rewrite forallb_forall in H. apply H. exact Hrow.
  Qed.

  (* every class of the family is base ++ t with inert text, and the id is the class without the strip prefix *)
  Lemma family_shape c : in_family c row = true -> exists t, c = (fst row ++ t)%string /\ inert c = true.
  Proof.
    pose proof row_spec_ok as S. unfold spec_ok in S. rewrite !andb_true_iff in S. destruct S as [[S1 S2] S3].
    unfold in_family. rewrite orb_true_iff. intros [H|H].
    - apply String.eqb_eq in H. subst c. exists ""%string. split; [|exact S3].
      clear. induction (fst row) as [|a s IH]; cbn; [reflexivity|]. rewrite <- IH. reflexivity.
    - destruct (get_spacing (pattern_spec (fst row)) c) as [n|] eqn:G; [|discriminate].
      apply get_spacing_spec in G. destruct G as [suf [-> [I _]]].
      destruct (strip_prefix (fst row) (pattern_spec (fst row))) as [t0|] eqn:E; [|discriminate].
      apply strip_prefix_app in E. exists (t0 ++ suf)%string. split.
      + rewrite E at 1. clear. induction (fst row) as [|a s IH]; cbn; [reflexivity|]. rewrite IH. reflexivity.
      + rewrite inert_app, S2, I. reflexivity.
  Qed.

  Lemma family_id c : in_family c row = true -> (pattern_id_strip ++ pattern_id c)%string = c.
  Proof.
    intro H. destruct (family_shape c H) as [t [Hc _]].
    pose proof row_base_ok as B. unfold base_ok in B.
    destruct pattern_id_strip as [|p0 p'] eqn:EP; [discriminate|].
    destruct (strip_prefix (String p0 p') (fst row)) as [[|ch r]|] eqn:E; try discriminate.
    apply negb_true_iff in B. apply strip_prefix_app in E.
    assert (Hc2 : c = (String p0 p' ++ String ch (r ++ t))%string).
    { rewrite Hc, E. clear. induction (String p0 p') as [|a s IH]; cbn; [reflexivity|]. rewrite IH. reflexivity. }
    unfold pattern_id. rewrite EP. clear Hc H. subst c.
    set (X := String ch (r ++ t)).
    destruct (String.length (String p0 p' ++ X)) as [|f] eqn:L; [cbn in L; discriminate|].
    cbn [trim_start_matches]. rewrite strip_prefix_id.
    destruct f as [|f]; [reflexivity|]. unfold X. cbn [trim_start_matches strip_prefix]. rewrite B. reflexivity.
  Qed.

  Lemma family_id_inert c : in_family c row = true -> inert (pattern_id c) = true.
  Proof.
    intro H. destruct (family_shape c H) as [_ [_ I]]. rewrite <- (family_id c H), inert_app in I.
    apply andb_true_iff in I. tauto.
  Qed.
End Family.

Lemma family_id_no_strip row c : In row pattern_table -> in_family c row = true ->
  starts_with pattern_id_strip (pattern_id c) = false.
Proof.
  intros Hr H. pose proof (row_base_ok row Hr) as B. unfold base_ok in B.
  destruct pattern_id_strip as [|p0 p'] eqn:EP; [discriminate|].
  assert (N : strip_prefix (String p0 p') (pattern_id c) = None).
  { unfold pattern_id. rewrite EP. apply trim_no_prefix; [discriminate | apply Nat.le_refl]. }
  destruct (starts_with (String p0 p') (pattern_id c)) eqn:S; [|reflexivity].
  exfalso. revert N S. generalize (pattern_id c). generalize (String p0 p'). clear.
  induction s as [|a s IH]; intros [|b t]; cbn; try discriminate.
  destruct (Ascii.eqb a b); cbn; [apply IH | discriminate].
Qed.

(* a class belongs to at most one family *)
Lemma family_unique A B c : In A pattern_table -> In B pattern_table ->
  in_family c A = true -> in_family c B = true -> fst A = fst B.
Proof.
  intros HA HB.
  pose proof pattern_table_ok_true as OK. unfold pattern_table_ok in OK. rewrite !andb_true_iff in OK.
  destruct OK as [[[[[_ _] X] _] _] _]. rewrite forallb_forall in X.
  assert (XAB := X A HA). rewrite forallb_forall in XAB. specialize (XAB B HB).
  assert (XBA := X B HB). rewrite forallb_forall in XBA. specialize (XBA A HA).
  unfold cross_ok in XAB, XBA. rewrite andb_true_iff in XAB, XBA.
  destruct XAB as [N1 C1]. destruct XBA as [N2 C2]. apply negb_true_iff in N1. apply negb_true_iff in N2.
  unfold in_family. rewrite !orb_true_iff. intros [E1|G1] [E2|G2].
  - apply String.eqb_eq in E1. apply String.eqb_eq in E2. congruence.
  - apply String.eqb_eq in E1. subst c. congruence.
  - apply String.eqb_eq in E2. subst c. congruence.
  - destruct (String.eqb (fst A) (fst B)) eqn:EAB; [apply String.eqb_eq; exact EAB|]. exfalso.
    rewrite String.eqb_sym in EAB. rewrite EAB in C2. cbn [orb] in C1, C2.
    rewrite String.eqb_sym in EAB. 
    destruct (get_spacing (pattern_spec (fst A)) c) as [n1|] eqn:GA; [|discriminate].
    destruct (get_spacing (pattern_spec (fst B)) c) as [n2|] eqn:GB; [|discriminate].
    apply get_spacing_spec in GA. apply get_spacing_spec in GB.
    destruct GA as [s1 [EA [_ [_ FA]]]]. destruct GB as [s2 [EB [_ [_ FB]]]].
    assert (PA : strip_prefix (pattern_spec (fst A)) c = Some s1) by (rewrite EA; apply strip_prefix_id).
    assert (PB : strip_prefix (pattern_spec (fst B)) c = Some s2) by (rewrite EB; apply strip_prefix_id).
    destruct (prefix_cases _ _ _ _ _ PA PB) as [[d [Hd Hs]]|[d [Hd Hs]]].
    + rewrite Hd in C1. destruct d as [|ch d]; [discriminate|]. subst s1. cbn in FA.
      apply negb_true_iff, orb_false_iff in C1. destruct C1 as [C1a C1b].
      destruct FA as [FA|FA]; [congruence | subst ch; discriminate].
    + rewrite Hd in C2. destruct d as [|ch d]; [discriminate|]. subst s2. cbn in FB.
      apply negb_true_iff, orb_false_iff in C2. destruct C2 as [C2a C2b].
      destruct FB as [FB|FB]; [congruence | subst ch; discriminate].
Qed.

(* ------------------------------------------------------------------ what a pattern class emits *)
Definition def_pre : string := render [] (firstn 1 pattern_def_template).
Definition def_post (stroke : string) (spacing : Z) (ptype : string) (rot : option Z) : string :=
  let rotate := match rot with Some r => render [("r", int_str r)] pattern_rotate_template | None => "" end in
  let sp := of_Z spacing in
  let sw := fstr (fdiv (fsqrt sp) (of_Z 10)) in
  let env := [("spacing", nat_str spacing); ("sw", sw); ("t_stroke", stroke);
              ("gs", fstr (fdiv sp (of_Z 2))); ("r", fstr (fdiv (fsqrt sp) (of_Z 5)))] in
  let lines := String.concat "" (flat_map (fun p : list string * list seg =>
                                             if mem_str ptype (fst p) then [render env (snd p)] else []) pattern_parts) in
  render [("spacing", nat_str spacing); ("rotate", rotate); ("lines", lines)] (skipn 2 pattern_def_template).

Lemma pattern_items_shape tc c n pt rot :
  pattern_items tc c n pt rot =
  [style_of (Some c) (render [("class", c); ("ptn_id", pattern_id c)] pattern_style_template);
   def_of (Some c) (def_pre ++ pattern_id c ++ def_post (t_stroke tc) n pt rot)%string].
Proof. reflexivity. Qed.

Lemma style_scan c pid : inert c = true -> inert pid = true ->
  url_refs (render [("class", c); ("ptn_id", pid)] pattern_style_template) = [pid].
Proof.
  intros Hc Hp. apply inert_parts in Hc. apply inert_parts in Hp.
  destruct Hc as [C1 [C2 [C3 C4]]]. destruct Hp as [P1 [P2 [P3 P4]]].
  unfold pattern_style_template. cbn [render assoc String.eqb Ascii.eqb Bool.eqb]. scan. reflexivity.
Qed.

Lemma def_scan pid post : inert pid = true ->
  def_ids (def_pre ++ pid ++ String """" post)%string = pid :: def_ids post /\
  url_refs (def_pre ++ pid ++ String """" post)%string = url_refs post.
Proof.
  intro Hp. apply inert_parts in Hp. destruct Hp as [P1 [P2 [P3 P4]]].
  unfold def_pre, pattern_def_template. cbn [firstn render]. split; scan; reflexivity.
Qed.

Definition post_ok (p : string) : bool :=
  match p with
  | String q rest => (Ascii.eqb q """" && is_nil (def_ids rest) && is_nil (url_refs rest))%bool
  | EmptyString => false
  end.
Definition patterns_ok (stroke : string) : bool :=
  forallb (fun row : family_row => forallb (fun n => post_ok (def_post stroke n (fst (snd row)) (snd (snd row)))) spacings) pattern_table.
Lemma patterns_ok_all : forallb (fun tc => patterns_ok (t_stroke tc)) all_tconsts = true.
Proof. vm_compute. reflexivity. Qed.

Lemma pattern_items_scan tc row c n :
  In tc all_tconsts -> In row pattern_table -> in_family c row = true -> In n spacings ->
  refs_of (pattern_items tc c n (fst (snd row)) (snd (snd row))) = [pattern_id c] /\
  ids_of (pattern_items tc c n (fst (snd row)) (snd (snd row))) = [pattern_id c].
Proof.
  intros Ht Hr Hc Hn. rewrite pattern_items_shape.
  pose proof patterns_ok_all as OK. rewrite forallb_forall in OK. specialize (OK tc Ht).
  unfold patterns_ok in OK. rewrite forallb_forall in OK. specialize (OK row Hr).
  rewrite forallb_forall in OK. specialize (OK n Hn). unfold post_ok in OK.
  destruct (def_post (t_stroke tc) n (fst (snd row)) (snd (snd row))) as [|q rest]; [discriminate|].
  rewrite !andb_true_iff in OK. destruct OK as [[Q D] U]. apply Ascii.eqb_eq in Q. subst q.
  apply is_nil_spec in D. apply is_nil_spec in U.
  pose proof (family_id_inert row Hr c Hc) as Ip.
  destruct (family_shape row Hr c Hc) as [_ [_ Ic]].
  destruct (def_scan (pattern_id c) rest Ip) as [S1 S2].
  unfold refs_of, ids_of. cbn [flat_map txt is_def style_of def_of].
  rewrite (style_scan c _ Ic Ip), S1, S2, D, U. split; reflexivity.
Qed.

(* the pattern classes present, over all families, in emission order *)
Definition present_patterns (cls : list string) : list string :=
  flat_map (fun row : family_row => map fst (pattern_classes cls (fst row))) pattern_table.

Lemma pattern_classes_member cls base c n : In (c, n) (pattern_classes cls base) ->
  (c = base /\ n = pattern_base_spacing) \/ get_spacing (pattern_spec base) c = Some n.
Proof.
  unfold pattern_classes. rewrite in_app_iff. intros [H|H].
  - destruct (has cls base); [|destruct H]. destruct H as [H|[]]. inversion H. left. auto.
  - apply in_flat_map in H. destruct H as [d [_ H]].
    destruct (get_spacing (pattern_spec base) d) eqn:G; [|destruct H]. destruct H as [H|[]]. inversion H; subst. right. exact G.
Qed.

Lemma base_spacing_in : In pattern_base_spacing spacings.
Proof.
  apply in_spacings. pose proof pattern_table_ok_true as OK. unfold pattern_table_ok in OK.
  rewrite !andb_true_iff in OK. destruct OK as [[_ A] B]. apply Z.leb_le in A. apply Z.leb_le in B. lia.
Qed.

Lemma pattern_family_scan tc cls row : In tc all_tconsts -> In row pattern_table ->
  refs_of (pattern_family tc cls row) = map pattern_id (map fst (pattern_classes cls (fst row))) /\
  ids_of (pattern_family tc cls row) = map pattern_id (map fst (pattern_classes cls (fst row))).
Proof.
  intros Ht Hr. unfold pattern_family. rewrite refs_flat_map, ids_flat_map.
  assert (M : forall cn, In cn (pattern_classes cls (fst row)) ->
              in_family (fst cn) row = true /\ In (snd cn) spacings).
  { intros [c n] H. apply pattern_classes_member in H. cbn [fst snd]. unfold in_family.
    destruct H as [[-> ->]|G].
    - rewrite String.eqb_refl. split; [reflexivity | apply base_spacing_in].
    - rewrite G. split; [apply orb_true_r|]. apply get_spacing_spec in G. destruct G as [_ [_ [_ [G _]]]]. exact G. }
  induction (pattern_classes cls (fst row)) as [|[c n] l IH]; [split; reflexivity|].
  cbn [flat_map map fst snd].
  destruct (M (c, n) (or_introl eq_refl)) as [Hc Hn]. cbn [fst snd] in Hc, Hn.
  destruct (pattern_items_scan tc row c n Ht Hr Hc Hn) as [R D]. rewrite R, D.
  destruct IH as [IR ID]; [intros cn H; apply M; right; exact H|]. rewrite IR, ID. split; reflexivity.
Qed.

Lemma sec_pattern_scan_gen tc cls (tbl : list family_row) : In tc all_tconsts ->
  (forall row, In row tbl -> In row pattern_table) ->
  flat_map (fun x => refs_of (pattern_family tc cls x)) tbl =
    map pattern_id (flat_map (fun row : family_row => map fst (pattern_classes cls (fst row))) tbl) /\
  flat_map (fun x => ids_of (pattern_family tc cls x)) tbl =
    map pattern_id (flat_map (fun row : family_row => map fst (pattern_classes cls (fst row))) tbl).
Proof.
  intros Ht. induction tbl as [|row t IH]; intro M; [split; reflexivity|].
  cbn [flat_map]. rewrite map_app.
  destruct (pattern_family_scan tc cls row Ht (M row (or_introl eq_refl))) as [R D]. rewrite R, D.
  destruct IH as [IR ID]; [intros r H; apply M; right; exact H|]. rewrite IR, ID. split; reflexivity.
Qed.

Lemma sec_pattern_scan tc cls : In tc all_tconsts ->
  refs_of (sec_pattern tc cls) = map pattern_id (present_patterns cls) /\
  ids_of (sec_pattern tc cls) = map pattern_id (present_patterns cls).
Proof.
  intro Ht. unfold sec_pattern, present_patterns. rewrite refs_flat_map, ids_flat_map.
  apply sec_pattern_scan_gen; auto.
Qed.

(* the present pattern classes are pairwise distinct, and so are their ids *)
Lemma NoDup_app_intro {A} (a b : list A) : NoDup a -> NoDup b -> (forall x, In x a -> In x b -> False) -> NoDup (a ++ b).
Proof.
  induction a as [|x a IH]; cbn; intros Na Nb D; [exact Nb|].
  inversion Na as [|? ? Hx Na']; subst. constructor.
  - rewrite in_app_iff. intros [H|H]; [contradiction | eapply D; [left; reflexivity | exact H]].
  - apply IH; auto. intros y Ha Hb. eapply D; [right; exact Ha | exact Hb].
Qed.

Lemma NoDup_app_left {A} (a b : list A) : NoDup (a ++ b) -> NoDup a.
Proof.
  induction a as [|x a IH]; cbn; intro N; [constructor|]. inversion N as [|? ? Hx N']; subst.
  constructor; [|apply IH; exact N']. intro H. apply Hx. apply in_app_iff. left; exact H.
Qed.
Lemma NoDup_app_right {A} (a b : list A) : NoDup (a ++ b) -> NoDup b.
Proof. induction a as [|x a IH]; cbn; intro N; [exact N|]. inversion N; subst. apply IH. assumption. Qed.

Lemma NoDup_filter {A} (f : A -> bool) l : NoDup l -> NoDup (filter f l).
Proof.
  induction 1 as [|x l Hx N IH]; cbn; [constructor|]. destruct (f x); [|exact IH].
  constructor; [|exact IH]. intro H. apply filter_In in H. tauto.
Qed.

Lemma pattern_classes_nodup cls base : NoDup cls -> get_spacing (pattern_spec base) base = None ->
  NoDup (map fst (pattern_classes cls base)).
Proof.
  intros N G. unfold pattern_classes. rewrite map_app. apply NoDup_app_intro.
  - destruct (has cls base); cbn; repeat constructor. intros [].
  - set (l := if pattern_sorted then _ else _).
    assert (Nl : NoDup l).
    { unfold l. destruct pattern_sorted; [|apply NoDup_filter; exact N].
      eapply Permutation_NoDup; [apply Permutation_sym, sort_perm | apply NoDup_filter; exact N]. }
    clearbody l. induction Nl as [|x l Hx Nl IH]; [constructor|]. cbn [flat_map].
    destruct (get_spacing (pattern_spec base) x); cbn [map app fst]; [|exact IH]. constructor; [|exact IH].
    intro H. apply Hx. apply in_map_iff in H. destruct H as [[c n] [<- H]]. apply in_flat_map in H.
    destruct H as [d [Hd H]]. destruct (get_spacing (pattern_spec base) d); [|destruct H].
    destruct H as [H|[]]. inversion H; subst. exact Hd.
  - intros x H1 H2. destruct (has cls base); [|destruct H1]. destruct H1 as [<-|[]].
    apply in_map_iff in H2. destruct H2 as [[c n] [E H]]. cbn in E. subst c. apply in_flat_map in H.
    destruct H as [d [_ H]]. destruct (get_spacing (pattern_spec base) d) eqn:G'; [|destruct H].
    destruct H as [H|[]]. inversion H; subst. congruence.
Qed.

Lemma present_in_family cls row c : In c (map fst (pattern_classes cls (fst row))) -> in_family c row = true.
Proof.
  intro H. apply in_map_iff in H. destruct H as [[c' n] [<- H]]. apply pattern_classes_member in H. cbn [fst].
  unfold in_family. destruct H as [[-> _]|G]; [rewrite String.eqb_refl; reflexivity | rewrite G; apply orb_true_r].
Qed.

Lemma present_patterns_nodup cls : NoDup cls -> NoDup (present_patterns cls).
Proof.
  intro N. unfold present_patterns.
  pose proof pattern_table_ok_true as OK. unfold pattern_table_ok in OK. rewrite !andb_true_iff in OK.
  destruct OK as [[[[[_ _] X] ND] _] _]. apply nodupb_spec in ND. rewrite forallb_forall in X.
  assert (Self : forall row, In row pattern_table -> get_spacing (pattern_spec (fst row)) (fst row) = None).
  { intros row Hr. specialize (X row Hr). rewrite forallb_forall in X. specialize (X row Hr).
    unfold cross_ok in X. apply andb_true_iff in X. destruct X as [X _]. apply negb_true_iff in X.
    destruct (get_spacing (pattern_spec (fst row)) (fst row)); [discriminate | reflexivity]. }
  assert (Sub : forall row, In row pattern_table -> In row pattern_table) by auto.
  clear X. revert Self Sub ND. generalize pattern_table at 1 2 4 5 as tbl.
  induction tbl as [|row t IH]; intros Self Sub ND; cbn [flat_map map]; [constructor|].
  inversion ND as [|? ? Hn ND']; subst. apply NoDup_app_intro.
  - apply pattern_classes_nodup; [exact N | apply Self; left; reflexivity].
  - apply IH; auto. intros r H. apply Self. right; exact H. intros r H. apply Sub. right; exact H.
  - intros c H1 H2. apply in_flat_map in H2. destruct H2 as [row' [Hr' H2]].
    apply present_in_family in H1. apply present_in_family in H2.
    assert (E : fst row = fst row').
    { apply (family_unique row row' c); auto. apply Sub; left; reflexivity. apply Sub; right; exact Hr'. }
    apply Hn. rewrite E. apply in_map. exact Hr'.
Qed.

Lemma present_pattern_family cls c : In c (present_patterns cls) -> exists row, In row pattern_table /\ in_family c row = true.
Proof.
  unfold present_patterns. intro H. apply in_flat_map in H. destruct H as [row [Hr H]].
  exists row. split; [exact Hr | apply present_in_family with cls; exact H].
Qed.

Lemma pattern_ids_nodup cls : NoDup cls -> NoDup (map pattern_id (present_patterns cls)).
Proof.
  intro N. pose proof (present_patterns_nodup cls N) as NP.
  assert (F : forall c, In c (present_patterns cls) -> (pattern_id_strip ++ pattern_id c)%string = c).
  { intros c H. destruct (present_pattern_family cls c H) as [row [Hr Hc]]. apply (family_id row Hr c Hc). }
  induction NP as [|c l Hc NP IH]; cbn; [constructor|]. constructor.
  - intro H. apply in_map_iff in H. destruct H as [c' [E H]]. apply Hc.
    rewrite <- (F c (or_introl eq_refl)), <- E, (F c' (or_intror H)). exact H.
  - apply IH. intros c' H. apply F. right; exact H.
Qed.

(* ------------------------------------------------------------------ arrow marker, shadows *)
Definition arrow_ids : list string := def_ids arrow_def.
Definition refs_in (ids : list string) (t : string) : bool :=
  (negb (is_nil (url_refs t)) && forallb (fun x => mem_str x ids) (url_refs t))%bool.
Definition arrow_ok : bool :=
  (is_nil (url_refs arrow_def) && is_nil (url_refs arrow_extra_style) && Nat.eqb (length arrow_ids) 1
   && forallb (fun cr : string * string => refs_in arrow_ids (snd cr)) arrow_rules)%bool.
Lemma arrow_ok_true : arrow_ok = true.
Proof. vm_compute. reflexivity. Qed.

Definition shadow_ids : list string := flat_map (fun r => ids_of (shadow_body r)) shadow_table.
Definition shadow_ok : bool :=
  forallb (fun r : string * (string * string) =>
             (Nat.eqb (length (def_ids (snd (snd r)))) 1 && is_nil (url_refs (snd (snd r)))
              && refs_in (def_ids (snd (snd r))) (fst (snd r)))%bool) shadow_table.
Lemma shadow_ok_true : shadow_ok = true.
Proof. vm_compute. reflexivity. Qed.
Definition fixed_ids_ok : bool :=
  (nodupb (arrow_ids ++ shadow_ids) && forallb (starts_with pattern_id_strip) (arrow_ids ++ shadow_ids))%bool.
Lemma fixed_ids_ok_true : fixed_ids_ok = true.
Proof. vm_compute. reflexivity. Qed.

Lemma refs_in_spec ids t : refs_in ids t = true -> url_refs t <> [] /\ incl (url_refs t) ids.
Proof.
  unfold refs_in. rewrite andb_true_iff, negb_true_iff, forallb_forall. intros [N F]. split.
  - destruct (url_refs t); [discriminate | congruence].
  - intros x Hx. apply mem_str_In. apply F. exact Hx.
Qed.

Lemma single_incl {A} (ids r : list A) : length ids = 1%nat -> r <> [] -> incl r ids -> incl ids r.
Proof.
  destruct ids as [|a [|b l]]; try discriminate. intros _ N I x [<-|[]].
  destruct r as [|y r]; [congruence|]. destruct (I y (or_introl eq_refl)) as [<-|[]]. left; reflexivity.
Qed.

Lemma ids_one_rules cls rows : ids_of (guarded cls fst one_rule rows) = [].
Proof.
  unfold guarded. rewrite ids_flat_map. induction rows as [|r rows IH]; cbn; [reflexivity|].
  rewrite IH. destruct (has cls (fst r)); reflexivity.
Qed.

Lemma sec_arrow_scan cls :
  ids_of (sec_arrow cls) = (if any_class cls arrow_rules then arrow_ids else []) /\
  incl (refs_of (sec_arrow cls)) (ids_of (sec_arrow cls)) /\ incl (ids_of (sec_arrow cls)) (refs_of (sec_arrow cls)).
Proof.
  pose proof arrow_ok_true as OK. unfold arrow_ok in OK. rewrite !andb_true_iff in OK.
  destruct OK as [[[U1 U2] L] F]. apply is_nil_spec in U1. apply is_nil_spec in U2. apply Nat.eqb_eq in L.
  rewrite forallb_forall in F.
  assert (I : ids_of (sec_arrow cls) = (if any_class cls arrow_rules then arrow_ids else [])).
  { unfold sec_arrow. rewrite ids_app, ids_one_rules. destruct (any_class cls arrow_rules); [|reflexivity].
    change (ids_of [style_of None arrow_extra_style; def_of None arrow_def]) with (def_ids arrow_def ++ []).
    cbn [app]. apply app_nil_r. }
  assert (R : refs_of (sec_arrow cls) = refs_of (guarded cls fst one_rule arrow_rules)).
  { unfold sec_arrow. rewrite refs_app. destruct (any_class cls arrow_rules); [|apply app_nil_r].
    change (refs_of [style_of None arrow_extra_style; def_of None arrow_def])
      with (url_refs arrow_extra_style ++ url_refs arrow_def ++ []).
    rewrite U1, U2. apply app_nil_r. }
  rewrite I, R. split; [reflexivity|]. unfold guarded, any_class. rewrite refs_flat_map. split.
  - intros x Hx. apply in_flat_map in Hx. destruct Hx as [r [Hr Hx]].
    destruct (has cls (fst r)) eqn:E; [|destruct Hx].
    assert (A : existsb (fun cr : string * string => has cls (fst cr)) arrow_rules = true)
      by (apply existsb_exists; exists r; auto).
    rewrite A. change (refs_of (one_rule r)) with (url_refs (snd r) ++ []) in Hx. rewrite app_nil_r in Hx.
    destruct (refs_in_spec _ _ (F r Hr)) as [_ In']. apply In'. exact Hx.
  - destruct (existsb (fun cr : string * string => has cls (fst cr)) arrow_rules) eqn:A; [|intros x []].
    apply existsb_exists in A. destruct A as [r [Hr E]]. destruct (refs_in_spec _ _ (F r Hr)) as [N In'].
    pose proof (single_incl _ _ L N In') as S. intros x Hx. apply in_flat_map. exists r. split; [exact Hr|].
    rewrite E. change (refs_of (one_rule r)) with (url_refs (snd r) ++ []). rewrite app_nil_r. apply S. exact Hx.
Qed.

Lemma sec_shadow_scan cls :
  incl (refs_of (sec_shadow cls)) (ids_of (sec_shadow cls)) /\ incl (ids_of (sec_shadow cls)) (refs_of (sec_shadow cls)).
Proof.
  unfold sec_shadow. apply guarded_incl. intros r Hr.
  pose proof shadow_ok_true as OK. unfold shadow_ok in OK. rewrite forallb_forall in OK. specialize (OK r Hr).
  rewrite !andb_true_iff in OK. destruct OK as [[L U] F]. apply Nat.eqb_eq in L. apply is_nil_spec in U.
  destruct (refs_in_spec _ _ F) as [N I].
  unfold shadow_body, refs_of, ids_of. cbn [flat_map txt is_def style_of def_of app]. rewrite U, !app_nil_r.
  split; [exact I | apply single_incl; assumption].
Qed.

(* ------------------------------------------------------------------ the class-independent checks per theme *)
Definition static_ok (tc : tconsts) : bool :=
  (match t_early tc with Some s => clean s | None => true end
   && rows_clean one_rule early_rules
   && forallb (fun blk => rows_clean (colour_body blk) colour_list) colour_blocks
   && rows_clean (scaled_rule stroke_width_template (t_sw tc)) stroke_widths
   && rows_clean one_rule text_rules && rows_clean text_ol_rule text_ol_widths
   && rows_clean flow_rule flow_styles && clean flow_keyframes && rows_clean one_rule dash_styles)%bool.
Lemma static_ok_all : forallb static_ok all_tconsts = true.
Proof. vm_compute. reflexivity. Qed.

Lemma clean_spec t : clean t = true -> url_refs t = [] /\ def_ids t = [].
Proof. unfold clean. rewrite andb_true_iff. intros [A B]. split; apply is_nil_spec; assumption. Qed.

Section Closure.
  Context (st : settings) (tc : tconsts) (els cls : list string).
  Context (Htc : In tc all_tconsts) (Hnd : NoDup cls) (Hst : settings_clean st tc = true).

  Let SO : static_ok tc = true.
  Proof. pose proof static_ok_all as H. rewrite forallb_forall in H. apply H. exact Htc. Qed.

  Lemma scan_early : refs_of (sec_early tc cls) = [] /\ ids_of (sec_early tc cls) = [].
  Proof.
    pose proof SO as H. unfold static_ok in H. rewrite !andb_true_iff in H.
    destruct H as [[[[[[[[E R] _] _] _] _] _] _] _].
    unfold sec_early. rewrite refs_app, ids_app. destruct (guarded_clean fst one_rule early_rules cls R) as [A B].
    rewrite A, B. destruct (t_early tc) as [s|]; [|auto]. apply clean_spec in E. destruct E as [E1 E2].
    unfold refs_of, ids_of. cbn [flat_map txt is_def style_of app]. rewrite E1. auto.
  Qed.
  Lemma scan_common : refs_of (sec_common st tc) = [] /\ ids_of (sec_common st tc) = [].
  Proof.
    unfold settings_clean in Hst. rewrite !andb_true_iff in Hst. destruct Hst as [[[_ H] _] _].
    apply items_clean_spec. exact H.
  Qed.
  Lemma scan_head : refs_of (head_items st tc) = [] /\ ids_of (head_items st tc) = [].
  Proof.
    unfold settings_clean in Hst. rewrite !andb_true_iff in Hst. destruct Hst as [[[H _] _] _].
    apply items_clean_spec. exact H.
  Qed.
  Lemma scan_tail : refs_of (tail_items st) = [] /\ ids_of (tail_items st) = [].
  Proof.
    unfold settings_clean in Hst. rewrite !andb_true_iff in Hst. destruct Hst as [_ H].
    apply items_clean_spec. exact H.
  Qed.
  Lemma scan_colour : refs_of (sec_colour cls) = [] /\ ids_of (sec_colour cls) = [].
  Proof.
    pose proof SO as H. unfold static_ok in H. rewrite !andb_true_iff in H.
    destruct H as [[[[[[[[_ _] C] _] _] _] _] _] _]. rewrite forallb_forall in C.
    unfold sec_colour. rewrite refs_flat_map, ids_flat_map.
    assert (M : forall blk, In blk colour_blocks -> rows_clean (colour_body blk) colour_list = true) by exact C.
    clear C. induction colour_blocks as [|blk t IH]; [auto|]. cbn [flat_map].
    destruct (guarded_clean (colour_class blk) (colour_body blk) colour_list cls (M blk (or_introl eq_refl))) as [A B].
    rewrite A, B. apply IH. intros b Hb. apply M. right; exact Hb.
  Qed.
  Lemma scan_stroke_width : refs_of (sec_stroke_width tc cls) = [] /\ ids_of (sec_stroke_width tc cls) = [].
  Proof.
    pose proof SO as H. unfold static_ok in H. rewrite !andb_true_iff in H.
    destruct H as [[[[[[[[_ _] _] W] _] _] _] _] _]. apply guarded_clean. exact W.
  Qed.
  Lemma scan_text : refs_of (sec_text st els cls) = [] /\ ids_of (sec_text st els cls) = [].
  Proof.
    pose proof SO as H. unfold static_ok in H. rewrite !andb_true_iff in H.
    destruct H as [[[[[[[[_ _] _] _] T1] T2] _] _] _].
    unfold settings_clean in Hst. rewrite !andb_true_iff in Hst. destruct Hst as [[[_ _] T3] _].
    unfold sec_text. destruct (text_gate els); [|auto]. rewrite !refs_app, !ids_app.
    destruct (guarded_clean fst one_rule text_rules cls T1) as [A1 B1].
    destruct (guarded_clean fst (text_size_rule st) text_sizes cls T3) as [A2 B2].
    destruct (guarded_clean fst text_ol_rule text_ol_widths cls T2) as [A3 B3].
    rewrite A1, A2, A3, B1, B2, B3. auto.
  Qed.
  Lemma scan_dash : refs_of (sec_dash cls) = [] /\ ids_of (sec_dash cls) = [].
  Proof.
    pose proof SO as H. unfold static_ok in H. rewrite !andb_true_iff in H.
    destruct H as [[[[[[[[_ _] _] _] _] _] F] K] D].
    unfold sec_dash. rewrite !refs_app, !ids_app.
    destruct (guarded_clean fst flow_rule flow_styles cls F) as [A1 B1].
    destruct (guarded_clean fst one_rule dash_styles cls D) as [A2 B2].
    rewrite A1, A2, B1, B2. apply clean_spec in K. destruct K as [K1 K2].
    destruct (any_class cls flow_styles); unfold refs_of, ids_of; cbn [flat_map txt is_def style_of app]; [rewrite K1|]; auto.
  Qed.

  Lemma build_items_scan :
    refs_of (build_items st tc els cls) = refs_of (sec_arrow cls) ++ map pattern_id (present_patterns cls) ++ refs_of (sec_shadow cls) /\
    ids_of (build_items st tc els cls) = ids_of (sec_arrow cls) ++ map pattern_id (present_patterns cls) ++ ids_of (sec_shadow cls).
  Proof.
    unfold build_items. rewrite seq_sections, !refs_app, !ids_app.
    destruct scan_head as [-> ->]. destruct scan_tail as [-> ->]. destruct scan_early as [-> ->].
    destruct scan_common as [-> ->]. destruct scan_colour as [-> ->]. destruct scan_stroke_width as [-> ->].
    destruct scan_text as [-> ->]. destruct scan_dash as [-> ->].
    destruct (sec_pattern_scan tc cls Htc) as [-> ->].
    cbn [app refs_of ids_of flat_map]. rewrite !app_nil_r. split; reflexivity.
  Qed.

  Lemma fixed_ids_facts :
    NoDup (arrow_ids ++ shadow_ids) /\ forall x, In x (arrow_ids ++ shadow_ids) -> starts_with pattern_id_strip x = true.
  Proof.
    pose proof fixed_ids_ok_true as H. unfold fixed_ids_ok in H. rewrite andb_true_iff in H. destruct H as [N F].
    split; [apply nodupb_spec; exact N | rewrite forallb_forall in F; exact F].
  Qed.

  Lemma closure_items :
    NoDup (ids_of (build_items st tc els cls)) /\
    incl (refs_of (build_items st tc els cls)) (ids_of (build_items st tc els cls)) /\
    incl (ids_of (build_items st tc els cls)) (refs_of (build_items st tc els cls)).
  Proof.
    destruct build_items_scan as [-> ->].
    destruct (sec_arrow_scan cls) as [AI [A1 A2]]. destruct (sec_shadow_scan cls) as [S1 S2].
    destruct fixed_ids_facts as [FN FS].
    assert (SubA : incl (ids_of (sec_arrow cls)) arrow_ids).
    { rewrite AI. destruct (any_class cls arrow_rules); [apply incl_refl | intros x []]. }
    assert (SubS : incl (ids_of (sec_shadow cls)) shadow_ids).
    { intros x Hx. unfold sec_shadow in Hx. apply guarded_ids_sub in Hx. exact Hx. }
    assert (NA : NoDup (ids_of (sec_arrow cls))).
    { rewrite AI. destruct (any_class cls arrow_rules); [|constructor]. apply (NoDup_app_left _ _ FN). }
    assert (NS : NoDup (ids_of (sec_shadow cls))).
    { unfold sec_shadow. apply guarded_ids_nodup. apply (NoDup_app_right _ _ FN). }
    assert (PN : forall x, In x (map pattern_id (present_patterns cls)) -> starts_with pattern_id_strip x = false).
    { intros x Hx. apply in_map_iff in Hx. destruct Hx as [c [<- Hc]].
      destruct (present_pattern_family cls c Hc) as [row [Hr Hf]]. apply (family_id_no_strip row c Hr Hf). }
    split; [|split].
    - apply NoDup_app_intro; [exact NA| |].
      + apply NoDup_app_intro; [apply pattern_ids_nodup; exact Hnd | exact NS |].
        intros x H1 H2. apply PN in H1. rewrite (FS x) in H1; [discriminate|]. apply in_app_iff. right. apply SubS. exact H2.
      + intros x H1 H2. apply in_app_iff in H2. destruct H2 as [H2|H2].
        * apply PN in H2. rewrite (FS x) in H2; [discriminate|]. apply in_app_iff. left. apply SubA. exact H1.
        * clear -FN SubA SubS H1 H2. apply SubA in H1. apply SubS in H2. revert FN H1 H2.
          generalize arrow_ids as a, shadow_ids as b. induction a as [|y a IH]; cbn; intros b FN H1 H2; [destruct H1|].
          inversion FN as [|? ? Hy FN']; subst. destruct H1 as [->|H1].
          -- apply Hy. apply in_app_iff. right. exact H2.
          -- eapply IH; eauto.
    - apply incl_app; [apply incl_appl; exact A1|]. apply incl_appr. apply incl_app; [apply incl_appl, incl_refl | apply incl_appr; exact S1].
    - apply incl_app; [apply incl_appl; exact A2|]. apply incl_appr. apply incl_app; [apply incl_appl, incl_refl | apply incl_appr; exact S2].
  Qed.
End Closure.

Lemma url_closure_build st els cls items :
  build st els cls = Ok items -> NoDup cls -> settings_cleanb st = true ->
  (forall id, In id (refs_of items) -> count_occ string_dec (ids_of items) id = 1%nat) /\
  (forall id, In id (ids_of items) -> In id (refs_of items)).
Proof.
  unfold build, settings_cleanb. destruct (theme_consts (s_theme st)) as [tc|] eqn:E; [|discriminate].
  intros H N S. inversion H; subst items. apply theme_consts_in in E.
  destruct (closure_items st tc els cls E N S) as [ND [I1 I2]]. split.
  - intros id Hid. apply (proj1 (NoDup_count_occ' string_dec _) ND). apply I1. exact Hid.
  - exact I2.
Qed.

(* ------------------------------------------------------------------ document level: write_auto_styles / postprocess *)
Lemma dedup_In l x : In x (dedup l) <-> In x l.
Proof.
  induction l as [|y l IH]; cbn; [tauto|]. destruct (mem_str y l) eqn:E.
  - rewrite IH. split; [auto|]. intros [<-|H]; [apply mem_str_In; exact E | exact H].
  - cbn. rewrite IH. tauto.
Qed.
Lemma dedup_NoDup l : NoDup (dedup l).
Proof.
  induction l as [|y l IH]; cbn; [constructor|]. destruct (mem_str y l) eqn:E; [exact IH|].
  constructor; [|exact IH]. rewrite dedup_In. intro H. apply mem_str_In in H. congruence.
Qed.

Lemma collect_classes_In evs c : In c (collect_classes evs) <-> exists ev, In ev evs /\ In c (snd ev).
Proof. unfold collect_classes. rewrite dedup_In, in_flat_map. tauto. Qed.
Lemma collect_elements_In evs n : In n (collect_elements evs) <-> exists ev, In ev evs /\ fst ev = n.
Proof. unfold collect_elements. rewrite dedup_In, in_map_iff. split; intros [ev H]; exists ev; tauto. Qed.

Lemma no_injection b1 b2 st evs : b1 = false \/ b2 = false -> auto_styles b1 b2 st evs = None.
Proof. rewrite auto_styles_cond. intros [->| ->]; [rewrite andb_false_r|]; reflexivity. Qed.

Lemma auto_styles_iff st evs items c :
  auto_styles true true st evs = Some (Ok items) -> reservedb c = true ->
  ((exists i, In i items /\ is_def i = false /\ owner i = Some c) <->
   (exists ev, In ev evs /\ In c (snd ev)) /\ (needs_text c = true -> text_gate (collect_elements evs) = true)).
Proof.
  rewrite auto_styles_cond. cbn [andb]. intros H R. inversion H as [H'].
  rewrite (rule_iff_class_build _ _ _ _ _ H' R), collect_classes_In. tauto.
Qed.

Lemma auto_styles_closure st evs items :
  auto_styles true true st evs = Some (Ok items) -> settings_cleanb st = true ->
  (forall id, In id (refs_of items) -> count_occ string_dec (ids_of items) id = 1%nat) /\
  (forall id, In id (ids_of items) -> In id (refs_of items)).
Proof.
  rewrite auto_styles_cond. cbn [andb]. intros H S. inversion H as [H'].
  apply (url_closure_build _ _ _ _ H' (dedup_NoDup _) S).
Qed.

(* ------------------------------------------------------------------ an emitted rule names the class that owns it *)
Definition owner_mentioned (i : item) : bool :=
  match owner i with Some c => if is_def i then true else mentions c (txt i) | None => true end.
Definition all_mentioned (l : list item) : bool := forallb owner_mentioned l.

Lemma all_mentioned_app a b : all_mentioned (a ++ b) = (all_mentioned a && all_mentioned b)%bool.
Proof. apply forallb_app. Qed.
Lemma all_mentioned_flat_map {A} (f : A -> list item) l :
  (forall x, In x l -> all_mentioned (f x) = true) -> all_mentioned (flat_map f l) = true.
Proof.
  induction l as [|x l IH]; intro H; [reflexivity|]. cbn [flat_map]. rewrite all_mentioned_app, (H x (or_introl eq_refl)).
  apply IH. intros y Hy. apply H. right; exact Hy.
Qed.
Lemma guarded_mentioned {A} (key : A -> string) body rows cls :
  forallb (fun r => all_mentioned (body r)) rows = true -> all_mentioned (guarded cls key body rows) = true.
Proof.
  rewrite forallb_forall. intro H. unfold guarded. apply all_mentioned_flat_map. intros r Hr.
  destruct (has cls (key r)); [apply H; exact Hr | reflexivity].
Qed.

Definition static_mentioned (tc : tconsts) : bool :=
  (forallb (fun r => all_mentioned (one_rule r)) early_rules
   && forallb (fun blk => forallb (fun col => all_mentioned (colour_body blk col)) colour_list) colour_blocks
   && forallb (fun r => all_mentioned (scaled_rule stroke_width_template (t_sw tc) r)) stroke_widths
   && forallb (fun r => all_mentioned (one_rule r)) text_rules
   && forallb (fun r => all_mentioned (text_ol_rule r)) text_ol_widths
   && forallb (fun r => all_mentioned (one_rule r)) arrow_rules
   && forallb (fun r => all_mentioned (flow_rule r)) flow_styles
   && forallb (fun r => all_mentioned (one_rule r)) dash_styles
   && forallb (fun r => all_mentioned (shadow_body r)) shadow_table)%bool.
Lemma static_mentioned_all : forallb static_mentioned all_tconsts = true.
Proof. vm_compute. reflexivity. Qed.

Lemma text_sizes_mentioned st : forallb (fun r => all_mentioned (text_size_rule st r)) text_sizes = true.
Proof. vm_compute. reflexivity. Qed.

Lemma pattern_style_mentioned c pid : mentions c (render [("class", c); ("ptn_id", pid)] pattern_style_template) = true.
Proof.
  unfold pattern_style_template, mentions, contains_sub. cbn [render assoc String.eqb Ascii.eqb Bool.eqb].
  cbn [append find_sub strip_prefix Ascii.eqb Bool.eqb]. rewrite strip_prefix_id. reflexivity.
Qed.

Lemma build_items_mentioned st tc els cls : In tc all_tconsts -> all_mentioned (build_items st tc els cls) = true.
Proof.
  intro Ht. pose proof static_mentioned_all as S. rewrite forallb_forall in S. specialize (S tc Ht).
  unfold static_mentioned in S. rewrite !andb_true_iff in S.
  destruct S as [[[[[[[[S1 S2] S3] S4] S5] S6] S7] S8] S9].
  unfold build_items. rewrite seq_sections, !all_mentioned_app.
  assert (H0 : all_mentioned (head_items st tc) = true) by (unfold head_items; destruct (s_local_id st); reflexivity).
  assert (H1 : all_mentioned (tail_items st) = true) by (unfold tail_items; destruct (s_local_id st); reflexivity).
  assert (H2 : all_mentioned (sec_early tc cls) = true).
  { unfold sec_early. rewrite all_mentioned_app, (guarded_mentioned _ _ _ _ S1). destruct (t_early tc); reflexivity. }
  assert (H3 : all_mentioned (sec_common st tc) = true).
  { unfold sec_common. induction common_templates as [|t l IH]; [reflexivity | exact IH]. }
  assert (H4 : all_mentioned (sec_colour cls) = true).
  { unfold sec_colour. apply all_mentioned_flat_map. intros blk Hb. apply guarded_mentioned.
    rewrite forallb_forall in S2. apply S2. exact Hb. }
  assert (H5 : all_mentioned (sec_stroke_width tc cls) = true) by (apply guarded_mentioned; exact S3).
  assert (H6 : all_mentioned (sec_text st els cls) = true).
  { unfold sec_text. destruct (text_gate els); [|reflexivity].
    rewrite !all_mentioned_app, (guarded_mentioned _ _ _ _ S4), (guarded_mentioned _ _ _ _ (text_sizes_mentioned st)),
      (guarded_mentioned _ _ _ _ S5). reflexivity. }
  assert (H7 : all_mentioned (sec_arrow cls) = true).
  { unfold sec_arrow. rewrite all_mentioned_app, (guarded_mentioned _ _ _ _ S6). destruct (any_class cls arrow_rules); reflexivity. }
  assert (H8 : all_mentioned (sec_dash cls) = true).
  { unfold sec_dash. rewrite !all_mentioned_app, (guarded_mentioned _ _ _ _ S7), (guarded_mentioned _ _ _ _ S8).
    destruct (any_class cls flow_styles); reflexivity. }
  assert (H9 : all_mentioned (sec_pattern tc cls) = true).
  { unfold sec_pattern. apply all_mentioned_flat_map. intros row _. unfold pattern_family.
    apply all_mentioned_flat_map. intros [c n] _. rewrite pattern_items_shape.
    unfold all_mentioned, owner_mentioned. cbn [forallb owner is_def txt style_of def_of fst snd].
    rewrite pattern_style_mentioned. reflexivity. }
  assert (H10 : all_mentioned (sec_shadow cls) = true) by (apply guarded_mentioned; exact S9).
  rewrite H0, H1, H2, H3, H4, H5, H6, H7, H8, H9, H10. reflexivity.
Qed.

Lemma rules_mention_class_build st els cls items :
  build st els cls = Ok items ->
  forall i c, In i items -> is_def i = false -> owner i = Some c -> mentions c (txt i) = true.
Proof.
  unfold build. destruct (theme_consts (s_theme st)) as [tc|] eqn:E; [|discriminate].
  intro H. inversion H; subst items. apply theme_consts_in in E.
  pose proof (build_items_mentioned st tc els cls E) as M. unfold all_mentioned in M. rewrite forallb_forall in M.
  intros i c Hi Hd Ho. specialize (M i Hi). unfold owner_mentioned in M. rewrite Ho, Hd in M. exact M.
Qed.

Lemma vocabulary_nodup : NoDup (plain_vocab ++ text_vocab ++ map fst pattern_table).
Proof. apply nodupb_spec. vm_compute. reflexivity. Qed.


(* ------------------------------------------------------------------ the pinned vocabulary is still reserved *)
Definition pinned_spaced : list string :=
  flat_map (fun b => map (fun n => (b ++ "-" ++ nat_str (Z.of_nat n))%string) (seq 0 (S (Z.to_nat pinned_max_spacing))))
           pinned_pattern_bases.
Lemma pinned_reserved : forallb reservedb pinned_vocab = true /\ forallb reservedb pinned_spaced = true.
Proof. split; vm_compute; reflexivity. Qed.
