(* Totality of the fuel-recursive scanners and reference walks: with the fuel their callers give
   them they never run out (C01). Termination of the real loops is what these theorems say: the
   Rust loops have no counter, the model's fuel is the bound proved sufficient here. *)
From Coq Require Import String Ascii List Bool ZArith Lia.
From SvgdxModel Require Import Base.Str Base.Res Num.NumOps Gen.Tables Model.Types Model.Geom Model.Scan Model.Element.
Import ListNotations.
Open Scope string_scope.

Lemma drop_while_le p s : String.length (drop_while p s) <= String.length s.
Proof. induction s as [|c r IH]; cbn; [lia|]. destruct (p c); cbn; lia. Qed.
Lemma take_drop_length p s : String.length (take_while p s) + String.length (drop_while p s) = String.length s.
Proof. induction s as [|c r IH]; cbn; [reflexivity|]. destruct (p c); cbn; lia. Qed.
Lemma skip_ws_le s : String.length (skip_ws s) <= String.length s.
Proof. apply drop_while_le. Qed.
Lemma skip_wsp_comma_le s : String.length (skip_wsp_comma s) <= String.length s.
Proof.
  unfold skip_wsp_comma. pose proof (skip_ws_le s) as H.
  destruct (skip_ws s) as [|c r] eqn:E; [lia|].
  pose proof (skip_ws_le r) as Hr. cbn in H.
  destruct c as [[] [] [] [] [] [] [] []]; cbn; lia.
Qed.

(* a settled result: a value or an error value, neither a panic site nor exhausted fuel *)
Definition settled {A} (r : res A) : Prop := match r with Ok _ | Err _ => True | Panic _ | OutOfFuel => False end.
Lemma settled_bind {A B} (r : res A) (k : A -> res B) :
  settled r -> (forall a, r = Ok a -> settled (k a)) -> settled (bind r k).
Proof. destruct r; cbn; auto. Qed.
Lemma settled_not_oof {A} (r : res A) : settled r -> r <> OutOfFuel.
Proof. destruct r; cbn; intros H; try discriminate; contradiction. Qed.

Section WithNum.
Context (N : NumOps) (strp : string -> option (num N)).
Context (strp_empty : strp "" = None).

(* a number consumes at least one character *)
Lemma read_number_shrinks s v r :
  read_number N strp s = Ok (v, r) -> String.length r < String.length s.
Proof.
  unfold read_number. destruct s as [|c s']; [discriminate|].
  remember (String c s') as s eqn:Es. clear Es.
  destruct (strp (take_while is_numch s)) as [x|] eqn:E; [|discriminate].
  destruct (exists_char is_ws (take_while is_numch s)); [discriminate|].
  intro H; injection H as <- <-.
  assert (Hne : take_while is_numch s <> "") by (intro H0; rewrite H0, strp_empty in E; discriminate).
  pose proof (take_drop_length is_numch s) as HL.
  pose proof (skip_wsp_comma_le (drop_while is_numch s)).
  destruct (take_while is_numch s) eqn:T; [congruence|]. cbn in HL. lia.
Qed.
Lemma read_coord_shrinks s x y r :
  read_coord N strp s = Ok (x, y, r) -> String.length r < String.length s.
Proof.
  unfold read_coord. destruct (read_number N strp s) as [[a r1]| | |] eqn:E1; cbn; try discriminate.
  destruct (read_number N strp (skip_wsp_comma r1)) as [[b r2]| | |] eqn:E2; cbn; try discriminate.
  intro H; injection H as <- <- <-.
  apply read_number_shrinks in E1. apply read_number_shrinks in E2.
  pose proof (skip_wsp_comma_le r1). pose proof (skip_wsp_comma_le r2). lia.
Qed.

Lemma read_number_settled s : settled (read_number N strp s).
Proof.
  unfold read_number. destruct s; cbn; [exact I|].
  match goal with |- context [strp ?t] => destruct (strp t) end; [|exact I].
  match goal with |- context [exists_char ?p ?t] => destruct (exists_char p t) end; exact I.
Qed.
Lemma read_coord_settled s : settled (read_coord N strp s).
Proof.
  unfold read_coord. apply settled_bind; [apply read_number_settled|]. intros [x r] _.
  apply settled_bind; [apply read_number_settled|]. intros [y r2] _. exact I.
Qed.

Definition shrinks {A} (f : string -> res (A * string)) :=
  forall s a r, f s = Ok (a, r) -> String.length r < String.length s.

Lemma bind_coord_shrinks {A} (k : num N * num N * string -> res (A * string)) s a r :
  (forall x y r0 a' r', k (x, y, r0) = Ok (a', r') -> String.length r' <= String.length r0) ->
  (do p <- read_coord N strp s; k p) = Ok (a, r) -> String.length r < String.length s.
Proof.
  intros Hk. destruct (read_coord N strp s) as [[[x y] r0]| | |] eqn:E; cbn; try discriminate.
  intro H. apply Hk in H. apply read_coord_shrinks in E. lia.
Qed.
Lemma bind_number_shrinks {A} (k : num N * string -> res (A * string)) s a r :
  (forall x r0 a' r', k (x, r0) = Ok (a', r') -> String.length r' <= String.length r0) ->
  (do p <- read_number N strp s; k p) = Ok (a, r) -> String.length r < String.length s.
Proof.
  intros Hk. destruct (read_number N strp s) as [[x r0]| | |] eqn:E; cbn; try discriminate.
  intro H. apply Hk in H. apply read_number_shrinks in E. lia.
Qed.
End WithNum.

Section PathTotal.
Context (N : NumOps) (strp : string -> option (num N)).
Context (strp_empty : strp "" = None).

Definition not_closing (c : option ascii) : Prop := c <> Some "Z"%char /\ c <> Some "z"%char.

Ltac crunch :=
  repeat match goal with
  | H : context [read_coord N strp ?s] |- _ =>
      let E := fresh "E" in destruct (read_coord N strp s) as [[[? ?] ?]| | |] eqn:E; cbn in H; try discriminate H;
      apply (read_coord_shrinks N strp strp_empty) in E
  | H : context [read_number N strp ?s] |- _ =>
      let E := fresh "E" in destruct (read_number N strp s) as [[? ?]| | |] eqn:E; cbn in H; try discriminate H;
      apply (read_number_shrinks N strp strp_empty) in E
  | H : context [cur N ?st] |- _ => destruct (cur N st) as [? ?]; cbn in H
  | H : Ok (_, _) = Ok (_, _) |- _ => injection H as <- <-
  end.

(* process_instruction consumes input on every step (the closepath case relies on the command
   letter it has just consumed: after z the command is cleared, so the next step must begin with one) *)
Lemma path_step_progress st s st' s' :
  not_closing (ps_cmd N st) -> path_step N strp st s = Ok (st', s') ->
  String.length s' < String.length s /\ not_closing (ps_cmd N st').
Proof.
  intros [Hz1 Hz2]. unfold path_step.
  set (ph1 := match ps_cmd N st with None => _ | Some _ => _ end).
  assert (P1 : forall st1 s1, ph1 = Ok (st1, s1) ->
            (String.length s1 < String.length s \/ (s1 = s /\ st1 = st /\ s <> "")) /\
            (String.length s1 < String.length s \/ not_closing (ps_cmd N st1))).
  { subst ph1. intros st1 s1. destruct (ps_cmd N st) as [c0|] eqn:Ec; destruct s as [|c r]; try discriminate.
    - destruct (is_path_cmd c).
      + intro H; injection H as <- <-. pose proof (skip_wsp_comma_le r). cbn. split; left; lia.
      + intro H; injection H as <- <-. split; [right; repeat split; discriminate|right; rewrite Ec; split; assumption].
    - destruct (is_path_cmd c); [|discriminate].
      intro H; injection H as <- <-. pose proof (skip_wsp_comma_le r). cbn. split; left; lia. }
  destruct ph1 as [[st1 s1]| | |]; cbn; try discriminate.
  specialize (P1 st1 s1 eq_refl). destruct P1 as [P1 P2].
  destruct (ps_cmd N st1) as [c|] eqn:Ec1; [|discriminate].
  assert (L : String.length s1 <= String.length s) by (destruct P1 as [?|[-> _]]; lia).
  repeat match goal with
  | |- (if ?b then _ else _) = _ -> _ => destruct b eqn:?
  end; intro H; crunch; cbn; try discriminate;
  try (split; [lia | unfold not_closing; cbn; rewrite Ec1;
       split; intro X; injection X as ->; cbn in *; discriminate]).
  (* closepath *)
  all: destruct (ps_start N st1) as [p|]; [|discriminate]; injection H as <- <-; cbn.
  all: split; [|split; discriminate].
  all: destruct P2 as [P2|[Q1 Q2]]; [lia|].
  all: exfalso; unfold not_closing in *.
  all: match goal with Hb : (Ascii.eqb ?cc _ || Ascii.eqb ?cc _)%bool = true |- _ =>
         apply orb_true_iff in Hb; destruct Hb as [Hb|Hb]; apply Ascii.eqb_eq in Hb; subst cc; congruence end.
Qed.

Ltac settle :=
  repeat first
    [ exact I
    | apply settled_bind; [first [apply read_coord_settled | apply read_number_settled]|];
      let a := fresh "a" in intros a _; try destruct a as [[? ?] ?]; try destruct a as [? ?]
    | match goal with |- settled (let '(_, _) := ?p in _) => destruct p end
    | match goal with |- settled (if ?b then _ else _) => destruct b end
    | match goal with |- settled (match ?o with Some _ => _ | None => _ end) => destruct o end ].

Lemma path_step_settled st s : settled (path_step N strp st s).
Proof.
  unfold path_step. apply settled_bind.
  - destruct (ps_cmd N st); destruct s as [|c r]; try exact I; destruct (is_path_cmd c); exact I.
  - intros [st1 s1] _. destruct (ps_cmd N st1); [|exact I]. settle.
Qed.

Theorem path_loop_total : forall fuel st s,
  not_closing (ps_cmd N st) -> String.length s < fuel -> settled (path_loop N strp fuel st s).
Proof.
  induction fuel as [|f IH]; intros st s Hc Hl; [lia|].
  destruct s as [|c r]; [exact I|].
  cbn [path_loop]. pose proof (path_step_settled st (String c r)) as HS.
  destruct (path_step N strp st (String c r)) as [[st' s']| | |] eqn:E; cbn; try exact I; try contradiction.
  destruct (path_step_progress _ _ _ _ Hc E) as [E1 E2].
  apply IH; [exact E2|cbn [String.length] in E1, Hl; lia].
Qed.

Theorem path_bbox_total d : settled (path_bbox N strp d).
Proof.
  unfold path_bbox. apply settled_bind.
  - apply path_loop_total; [split; discriminate | pose proof (skip_ws_le d); lia].
  - intros st _. destruct (ps_start N st); exact I.
Qed.
End PathTotal.

(* ---- generic combinators ---- *)
Lemma settled_of_opt {A} k (o : option A) : settled (of_opt k o).
Proof. destruct o; exact I. Qed.
Lemma settled_mapM {A B} (f : A -> res B) l : (forall a, settled (f a)) -> settled (mapM f l).
Proof.
  intro Hf. induction l as [|a l IH]; cbn; [exact I|].
  apply settled_bind; [apply Hf|]. intros b _. apply settled_bind; [exact IH|]. intros bs _. exact I.
Qed.

Section ElementTotal.
Context (N : NumOps) (strp : string -> option (num N)).
Context (strp_empty : strp "" = None).
Local Notation el := (el N).
Local Notation emap := (emap N).

Lemma points_bbox_settled s : settled (points_bbox N strp s).
Proof.
  unfold points_bbox. apply settled_bind.
  - apply settled_mapM. intro. apply settled_of_opt.
  - intros vs _. destruct (points_fold N vs true (None, None)) as [[[? ?]|] [[? ?]|]]; exact I.
Qed.
Lemma parse_xfrm_settled v : settled (parse_xfrm N strp v).
Proof.
  unfold parse_xfrm. destruct (break_at _ v) as [name [[? args]|]]; [|exact I].
  destruct (strip_suffix ")" args); [|exact I].
  apply settled_bind; [apply settled_mapM; intro; apply settled_of_opt|]. intros vals _.
  destruct (arity_ok _ _); [|exact I].
  destruct (String.eqb _ "translate"); [destruct vals as [|? [|? [|? ?]]]; exact I|].
  destruct (String.eqb _ "scale"); [destruct vals as [|? [|? [|? ?]]]; exact I|]. exact I.
Qed.
Lemma parse_transform_settled v : settled (parse_transform N strp v).
Proof. unfold parse_transform. apply settled_mapM. apply parse_xfrm_settled. Qed.
Lemma strp_r_settled v : settled (strp_r N strp v).
Proof. unfold strp_r. apply settled_of_opt. Qed.

Ltac settle_el :=
  repeat first
    [ exact I
    | apply strp_r_settled | apply points_bbox_settled | apply (path_bbox_total N strp strp_empty) | apply parse_transform_settled
    | apply settled_bind; [|intros ? _]
    | match goal with |- settled (if ?b then _ else _) => destruct b end
    | match goal with |- settled (match ?o with Some _ => _ | None => _ end) => destruct o end ].

Lemma bbox_raw_settled e : settled (bbox_raw N strp e).
Proof. unfold bbox_raw. cbv zeta. settle_el. Qed.
Lemma el_bbox_settled e : settled (el_bbox N strp e).
Proof.
  unfold el_bbox. apply settled_bind.
  - destruct (ecbb N e); [exact I|apply bbox_raw_settled].
  - intros b _. settle_el.
Qed.

(* candidates for the order index of an element the map can return *)
Definition cand (c : emap) : list Z :=
  map (fun kv => eidx N (snd kv)) (cmap N c) ++ match cprev N c with Some p => [eidx N p] | None => [] end.
Lemma cand_length c : (List.length (cand c) <= S (List.length (cmap N c)))%nat.
Proof. unfold cand. rewrite app_length, map_length. destruct (cprev N c); cbn; lia. Qed.
Lemma assoc_in {A} k (l : list (string * A)) v : assoc k l = Some v -> In (k, v) l.
Proof.
  induction l as [|[k' v'] l IH]; cbn; [discriminate|].
  destruct (String.eqb_spec k k') as [->|]; [intro H; injection H as ->; auto|auto].
Qed.
Lemma get_element_cand c r t : get_element N c r = Some t -> In (eidx N t) (cand c).
Proof.
  unfold get_element, cand. destruct r as [id|]; intro H; apply in_or_app.
  - left. apply assoc_in in H. apply in_map_iff. exists (id, t). auto.
  - right. rewrite H. left. reflexivity.
Qed.

(* the walk along use / reuse references ends: every step records a new order index of the map *)
Lemma target_loop_total c : forall fuel seen e,
  NoDup seen -> incl seen (cand c) -> (S (List.length (cand c)) <= fuel + List.length seen)%nat ->
  settled (target_loop N fuel c seen e).
Proof.
  induction fuel as [|f IH]; intros seen e Hnd Hin Hf.
  - exfalso. pose proof (NoDup_incl_length Hnd Hin). lia.
  - cbn [target_loop]. destruct (_ || _)%bool; [|exact I].
    destruct (get_href N e); [|exact I]. destruct (parse_elref _); [|exact I].
    destruct (get_element N c _) as [t|] eqn:Eg; [|exact I].
    destruct (existsb _ seen) eqn:Ex; [exact I|].
    apply IH.
    + constructor; [|exact Hnd]. intro Hi.
      assert (X : existsb (Z.eqb (eidx N t)) seen = true) by (apply existsb_exists; exists (eidx N t); split; [exact Hi|apply Z.eqb_refl]).
      congruence.
    + intros x [<-|Hx]; [eapply get_element_cand; exact Eg|auto].
    + cbn. lia.
Qed.
Theorem get_target_element_total c e : settled (get_target_element N c e).
Proof.
  unfold get_target_element. apply target_loop_total; [constructor|intros x []|].
  pose proof (cand_length c). cbn. lia.
Qed.

(* the clip-path chain ends for the same reason (after the repair of the self-clipping overflow) *)
Lemma bbox_loop_total c : forall fuel seen e,
  NoDup seen -> incl seen (cand c) -> (S (List.length (cand c)) <= fuel + List.length seen)%nat ->
  settled (bbox_loop N strp fuel c seen e).
Proof.
  induction fuel as [|f IH]; intros seen e Hnd Hin Hf.
  - exfalso. pose proof (NoDup_incl_length Hnd Hin). lia.
  - cbn [bbox_loop]. apply settled_bind; [apply get_target_element_total|]. intros t _.
    apply settled_bind; [apply el_bbox_settled|]. intros b _.
    apply settled_bind.
    { destruct (_ || _)%bool; [|exact I].
      destruct (eget N e "x"), (eget N e "y"), b; try exact I; settle_el. }
    intros b' _. destruct (eget N e "clip-path"); [|exact I]. destruct b' as [bb|]; [|exact I].
    destruct (extract_urlref _); [|exact I].
    destruct (get_element N c _) as [ce|] eqn:Eg; [|exact I].
    destruct (existsb _ seen) eqn:Ex; [exact I|].
    destruct f as [|f'].
    { exfalso. assert (Hnd' : NoDup (eidx N ce :: seen)).
      { constructor; [|exact Hnd]. intro Hi.
        assert (X : existsb (Z.eqb (eidx N ce)) seen = true) by (apply existsb_exists; exists (eidx N ce); split; [exact Hi|apply Z.eqb_refl]).
        congruence. }
      assert (Hin' : incl (eidx N ce :: seen) (cand c)) by (intros x [<-|Hx]; [eapply get_element_cand; exact Eg|auto]).
      pose proof (NoDup_incl_length Hnd' Hin'). cbn in *. lia. }
    apply settled_bind.
    + apply IH.
      * constructor; [|exact Hnd]. intro Hi.
        assert (X : existsb (Z.eqb (eidx N ce)) seen = true) by (apply existsb_exists; exists (eidx N ce); split; [exact Hi|apply Z.eqb_refl]).
        congruence.
      * intros x [<-|Hx]; [eapply get_element_cand; exact Eg|auto].
      * cbn. lia.
    + intros cb _. destruct (String.eqb _ "clipPath"); [destruct cb|]; exact I.
Qed.
Theorem get_element_bbox_total c e : settled (get_element_bbox N strp c e).
Proof.
  unfold get_element_bbox. apply bbox_loop_total; [constructor|intros x []|].
  pose proof (cand_length c). cbn. lia.
Qed.
End ElementTotal.

(* ---- the text attribute (text.rs process_text_attr): its expect("no text attr") is unreachable
   from the one call site, which tests for the attribute first ---- *)
From SvgdxModel Require Import Model.Text.
Section TextTotal.
Context (N : NumOps) (strp : string -> option (num N)) (fstr : num N -> string).
Context (strp_empty : strp "" = None).

Lemma parse_locspec_settled s : settled (parse_locspec N strp s).
Proof.
  unfold parse_locspec. destruct (parse_locname s); [exact I|].
  destruct (break_at _ s) as [edge [[? len]|]]; [|exact I].
  destruct (strp_length N strp len); [|exact I]. destruct (parse_edgename edge); exact I.
Qed.

Ltac settle_t :=
  repeat first
    [ exact I
    | apply settled_of_opt | apply parse_locspec_settled | apply (el_bbox_settled N strp strp_empty)
    | apply settled_bind; [|intros ? _]
    | match goal with |- settled (match ?x with _ => _ end) => destruct x end ].

Lemma get_text_position_settled e : settled (get_text_position N strp e).
Proof. unfold get_text_position. cbv zeta. settle_t. Qed.

Theorem process_text_attr_settled e :
  ehas N e "text" = true -> settled (process_text_attr N strp fstr e).
Proof.
  unfold ehas, has, process_text_attr, eget. destruct (get (eattrs N e) "text"); [intros _|discriminate].
  cbv zeta. apply settled_bind; [apply get_text_position_settled|]. intros [e1 tp] _.
  apply settled_bind; [apply settled_of_opt|]. intros lsp _.
  match goal with |- settled (let '(_, _) := ?p in _) => destruct p end.
  match goal with |- settled (if ?b then _ else _) => destruct b end; exact I.
Qed.
End TextTotal.
