(* Containment (C12) on exact rationals: union encloses, intersection is enclosed, margins,
   circumscribed circle / ellipse, inscribed rectangle. *)
From Coq Require Import QArith Qabs Lqa Lia String List Bool ZArith.
From SvgdxModel Require Import Base.Str Base.Res Num.NumOps Gen.Tables Model.Types Model.Geom Model.Position
  Model.Scan Model.Element Proofs.RelPosP.
Import ListNotations.
Open Scope Q_scope.

(* box a lies within box b *)
Definition within (a b : QB) : Prop := bx1 b <= bx1 a /\ by1 b <= by1 a /\ bx2 a <= bx2 b /\ by2 a <= by2 b.
Lemma within_refl a : within a a. Proof. unfold within; repeat split; apply Qle_refl. Qed.
Lemma within_trans a b c : within a b -> within b c -> within a c.
Proof. unfold within. intros (A1 & A2 & A3 & A4) (B1 & B2 & B3 & B4). repeat split; lra. Qed.

Lemma Qmin'_l a b : Qmin' a b <= a.
Proof. unfold Qmin'. destruct (Qle_bool a b) eqn:E; [apply Qle_refl|]. destruct (Qlt_le_dec b a) as [H|H]; [lra|]. apply Qle_bool_iff in H. congruence. Qed.
Lemma Qmin'_r a b : Qmin' a b <= b.
Proof. unfold Qmin'. destruct (Qle_bool a b) eqn:E; [apply Qle_bool_iff in E; exact E | apply Qle_refl]. Qed.
Lemma Qmax'_l a b : a <= Qmax' a b.
Proof. unfold Qmax'. destruct (Qle_bool a b) eqn:E; [apply Qle_bool_iff in E; exact E | apply Qle_refl]. Qed.
Lemma Qmax'_r a b : b <= Qmax' a b.
Proof. unfold Qmax'. destruct (Qle_bool a b) eqn:E; [apply Qle_refl|]. destruct (Qlt_le_dec b a) as [H|H]; [lra|]. apply Qle_bool_iff in H. congruence. Qed.
Lemma Qmin'_glb a b c : c <= a -> c <= b -> c <= Qmin' a b.
Proof. unfold Qmin'. destruct (Qle_bool a b); auto. Qed.
Lemma Qmax'_lub a b c : a <= c -> b <= c -> Qmax' a b <= c.
Proof. unfold Qmax'. destruct (Qle_bool a b); auto. Qed.

Lemma combine_l a b : within a (bb_combine QOps a b).
Proof. unfold within; cbn. repeat split; auto using Qmin'_l, Qmax'_l. Qed.
Lemma combine_r a b : within b (bb_combine QOps a b).
Proof. unfold within; cbn. repeat split; auto using Qmin'_r, Qmax'_r. Qed.
Lemma combine_least a b c : within a c -> within b c -> within (bb_combine QOps a b) c.
Proof. unfold within; cbn. intros (A1 & A2 & A3 & A4) (B1 & B2 & B3 & B4). repeat split; auto using Qmin'_glb, Qmax'_lub. Qed.

Lemma fold_combine_acc : forall (l : list QB) (acc : QB), within acc (fold_left (bb_combine QOps) l acc).
Proof.
  induction l as [|h t IH]; cbn; intros acc; [apply within_refl|].
  eapply within_trans; [apply combine_l | apply IH].
Qed.
Lemma fold_combine_in : forall (l : list QB) (acc b : QB), In b l -> within b (fold_left (bb_combine QOps) l acc).
Proof.
  induction l as [|h t IH]; cbn; intros acc b Hin; [tauto|].
  destruct Hin as [->|Hin]; [|apply IH; exact Hin].
  eapply within_trans; [apply combine_r | apply fold_combine_acc].
Qed.
Lemma fold_combine_least : forall (l : list QB) (acc c : QB),
  within acc c -> (forall b, In b l -> within b c) -> within (fold_left (bb_combine QOps) l acc) c.
Proof.
  induction l as [|h t IH]; cbn; intros acc c Ha Hl; [exact Ha|].
  apply IH; [apply combine_least; auto | auto].
Qed.

(* union: encloses every member and is the least such box *)
Lemma union_encloses (l : list QB) (u b : QB) : bb_union QOps l = Some u -> In b l -> within b u.
Proof.
  destruct l as [|h t]; cbn; [discriminate|]. intros [= <-] [->|Hin]; [apply fold_combine_acc | now apply fold_combine_in].
Qed.
Lemma union_least (l : list QB) (u c : QB) : bb_union QOps l = Some u -> (forall b, In b l -> within b c) -> within u c.
Proof.
  destruct l as [|h t]; cbn; [discriminate|]. intros [= <-] H. apply fold_combine_least; [apply H; now left | intros b Hb; apply H; now right].
Qed.
Lemma union_nonempty (l : list QB) : l <> [] -> exists u, bb_union QOps l = Some u.
Proof. destruct l; [congruence | intros _; eexists; reflexivity]. Qed.

(* intersection: within every member *)
Lemma intersect_within a b i : bb_intersect QOps a b = Some i -> within i a /\ within i b.
Proof.
  unfold bb_intersect. cbn. destruct (_ && _)%bool; [|discriminate]. intros [= <-]. unfold within; cbn.
  repeat split; auto using Qmin'_l, Qmin'_r, Qmax'_l, Qmax'_r.
Qed.
Lemma intersection_from_within : forall (l : list QB) (acc i : QB),
  bb_intersection_from QOps acc l = Some i -> within i acc /\ forall b, In b l -> within i b.
Proof.
  induction l as [|h t IH]; cbn; intros acc i H.
  - inversion H; subst. split; [apply within_refl | tauto].
  - destruct (bb_intersect QOps acc h) as [j|] eqn:E; [|discriminate].
    destruct (intersect_within _ _ _ E) as [Ja Jh]. destruct (IH _ _ H) as [Ij It].
    split; [eapply within_trans; eauto|]. intros b [->|Hb]; [eapply within_trans; eauto | auto].
Qed.
Lemma intersection_within (l : list QB) (i b : QB) : bb_intersection QOps l = Some i -> In b l -> within i b.
Proof.
  destruct l as [|h t]; cbn; [discriminate|]. intros H [->|Hin]; destruct (intersection_from_within _ _ _ H); auto.
Qed.

(* margins: one to four CSS-order values *)
Definition nonneg_trbl (m : trbl QOps) (base : Q) : Prop :=
  0 <= len_evaluate QOps (t_top QOps m) base /\ 0 <= len_evaluate QOps (t_right QOps m) base /\
  0 <= len_evaluate QOps (t_bottom QOps m) base /\ 0 <= len_evaluate QOps (t_left QOps m) base.
Lemma expand_trbl_exact (b : QB) (m : trbl QOps) :
  let base := Qmax' (bx2 b - bx1 b) (by2 b - by1 b) in
  let g := bb_expand_trbl QOps b m in
  bx1 g == bx1 b - len_evaluate QOps (t_left QOps m) base /\ by1 g == by1 b - len_evaluate QOps (t_top QOps m) base /\
  bx2 g == bx2 b + len_evaluate QOps (t_right QOps m) base /\ by2 g == by2 b + len_evaluate QOps (t_bottom QOps m) base.
Proof. cbn. repeat split; reflexivity. Qed.
Lemma expand_trbl_encloses (b : QB) (m : trbl QOps) :
  nonneg_trbl m (Qmax' (bx2 b - bx1 b) (by2 b - by1 b)) -> within b (bb_expand_trbl QOps b m).
Proof. unfold nonneg_trbl, within. cbn. intros (A & B & C & D). repeat split; lra. Qed.
Lemma shrink_trbl_within (b : QB) (m : trbl QOps) :
  nonneg_trbl m (Qmin' (bx2 b - bx1 b) (by2 b - by1 b)) -> within (bb_shrink_trbl QOps b m) b.
Proof. unfold nonneg_trbl, within. cbn. intros (A & B & C & D). repeat split; lra. Qed.

(* circumscribed circle / ellipse of a box of size w x h with the constant k in place of sqrt 2:
   corner distance relates to the radius exactly by k*k; the code's constant is within 1e-7 of 2 *)
Definition sq (x : Q) := x * x.
Lemma Qsq_nonneg (k : Q) : 0 <= k * k.
Proof. unfold Qle. cbn. rewrite Z.mul_1_r. apply Z.square_nonneg. Qed.
Lemma Qsq_mono (a b : Q) : 0 <= a -> a <= b -> a * a <= b * b.
Proof.
  intros Ha Hab. apply Qle_trans with (b * a).
  - apply Qmult_le_compat_r; assumption.
  - rewrite (Qmult_comm b a). apply Qmult_le_compat_r; [assumption | lra].
Qed.
Lemma surround_circle_corner_k (w h k : Q) : 0 <= w -> 0 <= h ->
  let r := (1 # 2) * Qmax' w h * k in
  (sq (w / 2) + sq (h / 2)) * (k * k) <= 2 * sq r.
Proof.
  intros Hw Hh r. subst r. unfold sq.
  pose proof (Qmax'_l w h) as Ml. pose proof (Qmax'_r w h) as Mr. set (M := Qmax' w h) in *.
  assert (Hk : 0 <= k * k) by apply Qsq_nonneg.
  assert (H1 : w * w <= M * M) by (apply Qsq_mono; assumption).
  assert (H2 : h * h <= M * M) by (apply Qsq_mono; assumption).
  setoid_replace ((w / 2 * (w / 2) + h / 2 * (h / 2)) * (k * k)) with ((w * w + h * h) * (k * k) / 4) by field.
  setoid_replace (2 * ((1 # 2) * M * k * ((1 # 2) * M * k))) with ((M * M + M * M) * (k * k) / 4) by field.
  apply Qmult_le_compat_r; [|apply Qinv_le_0_compat; lra]. apply Qmult_le_compat_r; [|exact Hk].
  apply Qplus_le_compat; assumption.
Qed.
Lemma surround_ellipse_corner_k (w h k : Q) :
  let rx := (1 # 2) * w * k in let ry := (1 # 2) * h * k in
  (sq (w / 2) * sq ry + sq (h / 2) * sq rx) * (k * k) == 2 * sq rx * sq ry.
Proof. cbn. unfold sq. field. Qed.
(* the same for the radii the code computes (contain_circle_r / contain_ellipse_r) *)
Lemma contain_circle_r_surround w h : contain_circle_r QOps false w h == (1 # 2) * Qmax' w h * nsqrt2 QOps.
Proof. unfold contain_circle_r, half. cbn. field. Qed.
Lemma contain_ellipse_r_surround l : contain_ellipse_r QOps false l == (1 # 2) * l * nsqrt2 QOps.
Proof. unfold contain_ellipse_r, half. cbn. field. Qed.
Lemma contain_circle_r_inscribe w h : contain_circle_r QOps true w h == (1 # 2) * Qmin' w h.
Proof. unfold contain_circle_r, half. cbn. field. Qed.
Lemma contain_ellipse_r_inscribe l : contain_ellipse_r QOps true l == (1 # 2) * l.
Proof. unfold contain_ellipse_r, half. cbn. field. Qed.
Lemma surround_circle_corner (w h : Q) : 0 <= w -> 0 <= h ->
  let k := nsqrt2 QOps in
  (sq (w / 2) + sq (h / 2)) * (k * k) <= 2 * sq (contain_circle_r QOps false w h).
Proof.
  intros Hw Hh k. unfold sq. rewrite contain_circle_r_surround. apply (surround_circle_corner_k w h k Hw Hh).
Qed.
Lemma surround_ellipse_corner (w h : Q) :
  let k := nsqrt2 QOps in
  let rx := contain_ellipse_r QOps false w in let ry := contain_ellipse_r QOps false h in
  (sq (w / 2) * sq ry + sq (h / 2) * sq rx) * (k * k) == 2 * sq rx * sq ry.
Proof.
  intros k rx ry. subst rx ry. unfold sq. rewrite !contain_ellipse_r_surround. apply (surround_ellipse_corner_k w h k).
Qed.
Lemma sqrt2_constant_close : 2 - nsqrt2 QOps * nsqrt2 QOps <= 1 # 10000000 /\ 0 <= 2 - nsqrt2 QOps * nsqrt2 QOps.
Proof. cbn. split; unfold Qle; cbn; lia. Qed.

(* the code's position_from_bbox radii are exactly these expressions *)
Lemma inscribed_square_in_circle (r k' : Q) : 0 <= r -> 2 * (k' * k') <= 1 ->
  sq (r * k') + sq (r * k') <= sq r.
Proof.
  intros Hr Hk. unfold sq. pose proof (Qsq_nonneg r) as Hrr.
  setoid_replace (r * k' * (r * k') + r * k' * (r * k')) with ((r * r) * (2 * (k' * k'))) by ring.
  setoid_replace (r * r) with ((r * r) * 1) at 2 by ring.
  rewrite !(Qmult_comm (r * r)). apply Qmult_le_compat_r; assumption.
Qed.
Lemma frac_1_sqrt2_ok : 2 * (nfrac1sqrt2 QOps * nfrac1sqrt2 QOps) <= 1.
Proof. cbn. unfold Qle; cbn; lia. Qed.

(* circle / ellipse inscribed in a box: its own bounding box is within the box *)
Lemma inscribed_circle_within (b : QB) : bx1 b <= bx2 b -> by1 b <= by2 b ->
  let w := bx2 b - bx1 b in let h := by2 b - by1 b in
  let r := contain_circle_r QOps true w h in
  let cx := fst (bb_center QOps b) in let cy := snd (bb_center QOps b) in
  within (qbb (cx - r) (cy - r) (cx + r) (cy + r)) b.
Proof.
  intros Hx Hy w h r cx cy. subst r cx cy w h. unfold within, qbb. cbn [bx1 by1 bx2 by2].
  rewrite !contain_circle_r_inscribe. cbn [bb_center fst snd nadd nsub ndiv QOps two nofZ].
  pose proof (Qmin'_l (bx2 b - bx1 b) (by2 b - by1 b)). pose proof (Qmin'_r (bx2 b - bx1 b) (by2 b - by1 b)).
  set (m := Qmin' _ _) in *. unfold within, qbb; cbn.
  assert (E : forall z : Q, z / 2 == (1 # 2) * z) by (intros; field).
  rewrite !E. repeat split; lra.
Qed.

(* ---------- surround / inside / margin never reach the output ---------- *)
From SvgdxModel Require Import Proofs.TypesP.
Section AttrsRemoved.
Context (N : NumOps) (strp : string -> option (num N)) (fstr : num N -> string).
Lemma nodup_position_from_bbox e bb ins :
  NoDup (keys (eattrs N e)) -> NoDup (keys (eattrs N (position_from_bbox N fstr e bb ins))).
Proof.
  intros H. unfold position_from_bbox. destruct (bb_center N bb) as [cx cy].
  repeat match goal with |- context [if ?c then _ else _] => destruct c end;
    cbn [eattrs eset with_attrs]; repeat apply nodup_set; exact H.
Qed.
Lemma handle_containment_removes c e e' k :
  (eget N e "surround" <> None \/ eget N e "inside" <> None) ->
  handle_containment N strp fstr c e = Ok e' -> NoDup (keys (eattrs N e)) ->
  In k containment_remove -> eget N e' k = None.
Proof.
  intros Hsi H Hnd Hk. unfold handle_containment in H.
  destruct (eget N e "surround") as [s|] eqn:Es; destruct (eget N e "inside") as [i|] eqn:Ei;
    try discriminate H; try (destruct Hsi; congruence).
  - (* surround *)
    destruct (mapM _ _) as [bbs| | |]; cbn [bind] in H; try discriminate H.
    destruct (eget N e "margin") as [m|].
    + destruct (parse_trbl N strp m) as [t| | |]; cbn [bind] in H; try discriminate H.
      inversion H; subst e'. unfold eget, eremove; cbn [eattrs with_attrs].
      apply get_remove_attrs_in; [|exact Hk].
      destruct (bb_union N bbs); cbn [add_class with_cls eattrs]; [apply nodup_position_from_bbox|]; exact Hnd.
    + cbn [bind] in H. inversion H; subst e'. unfold eget, eremove; cbn [eattrs with_attrs].
      apply get_remove_attrs_in; [|exact Hk].
      destruct (bb_union N bbs); cbn [add_class with_cls eattrs]; [apply nodup_position_from_bbox|]; exact Hnd.
  - (* inside *)
    destruct (mapM _ _) as [bbs| | |]; cbn [bind] in H; try discriminate H.
    destruct (eget N e "margin") as [m|].
    + destruct (parse_trbl N strp m) as [t| | |]; cbn [bind] in H; try discriminate H.
      inversion H; subst e'. unfold eget, eremove; cbn [eattrs with_attrs].
      apply get_remove_attrs_in; [|exact Hk].
      destruct (bb_intersection N bbs); cbn [add_class with_cls eattrs]; [apply nodup_position_from_bbox|]; exact Hnd.
    + cbn [bind] in H. inversion H; subst e'. unfold eget, eremove; cbn [eattrs with_attrs].
      apply get_remove_attrs_in; [|exact Hk].
      destruct (bb_intersection N bbs); cbn [add_class with_cls eattrs]; [apply nodup_position_from_bbox|]; exact Hnd.
Qed.
End AttrsRemoved.
