(* The retry loop of process_tags in the abstract: elements are keys, [step env k] evaluates element k against the
   environment of resolved elements. For a step that is monotone in the environment (a resolved element stays resolved
   and more resolved elements never make an evaluation fail) the loop computes the LEAST environment closed under the
   step - hence a result that does not depend on the order of the elements. *)

From Coq Require Import List Arith Lia Permutation Bool.
Import ListNotations.

Section Retry.
Context (K G : Type).
Context (Keq : forall a b : K, {a = b} + {a <> b}).
Definition env := list (K * G).

Fixpoint lookup (e : env) (k : K) : option G :=
  match e with
  | [] => None
  | (k', g) :: r => if Keq k k' then Some g else lookup r k
  end.

Definition sub (e e' : env) : Prop := forall k g, lookup e k = Some g -> lookup e' k = Some g.

Context (step : env -> K -> option G)
        (step_mono : forall e e' k g, sub e e' -> step e k = Some g -> step e' k = Some g).

(* one pass over the pending list: resolved elements are registered, failures kept *)
Fixpoint pass (e : env) (ts : list K) : env * list K :=
  match ts with
  | [] => (e, [])
  | t :: r =>
      match step e t with
      | Some g => pass ((t, g) :: e) r
      | None => let '(e', rem) := pass e r in (e', t :: rem)
      end
  end.

(* the retry loop of process_tags; None = MultiError (no progress) *)
Fixpoint loop (fuel : nat) (e : env) (ts : list K) : option env :=
  match ts with
  | [] => Some e
  | _ =>
      match fuel with
      | O => None
      | S f =>
          let '(e', rem) := pass e ts in
          if Nat.eqb (length rem) (length ts) then None else loop f e' rem
      end
  end.

(* final environment also when failing, for the characterisation *)
Fixpoint loop_env (fuel : nat) (e : env) (ts : list K) : env * list K :=
  match ts with
  | [] => (e, [])
  | _ =>
      match fuel with
      | O => (e, ts)
      | S f =>
          let '(e', rem) := pass e ts in
          if Nat.eqb (length rem) (length ts) then (e', rem) else loop_env f e' rem
      end
  end.

Definition fresh (e : env) (ts : list K) := forall t, In t ts -> lookup e t = None.

Lemma sub_refl e : sub e e. Proof. intros k g H; exact H. Qed.
Lemma sub_trans a b c : sub a b -> sub b c -> sub a c.
Proof. intros H1 H2 k g H; auto. Qed.
Lemma sub_cons e t g : lookup e t = None -> sub e ((t, g) :: e).
Proof.
  intros Hn k v Hk; cbn. destruct (Keq k t) as [->|]; [congruence | exact Hk].
Qed.

Definition complete (D : list K) (E : env) :=
  forall t g, In t D -> step E t = Some g -> lookup E t = Some g.

(* pass: the environment only grows, the remainder is a sub-list, and lengths *)
Lemma pass_keeps_none : forall r e e' rem t,
  pass e r = (e', rem) -> ~ In t r -> lookup e t = None -> lookup e' t = None.
Proof.
  induction r as [|a r IHr]; intros e e' rem t Hp Hnotin Ht; cbn in Hp.
  - inversion Hp; subst; auto.
  - destruct (step e a) as [g|].
    + eapply IHr; [exact Hp | |].
      * intros Hin; apply Hnotin; now right.
      * cbn. destruct (Keq t a) as [->|]; [exfalso; apply Hnotin; now left | exact Ht].
    + destruct (pass e r) as [e2 rem2] eqn:Hp2. inversion Hp; subst.
      eapply IHr; [exact Hp2 | | exact Ht]. intros Hin; apply Hnotin; now right.
Qed.

Lemma pass_spec : forall ts e e' rem,
  NoDup ts -> fresh e ts -> pass e ts = (e', rem) ->
  sub e e' /\ incl rem ts /\ NoDup rem /\ fresh e' rem /\ length rem <= length ts /\
  (forall t, In t ts -> In t rem \/ exists g, lookup e' t = Some g) /\
  (forall E, sub e E -> complete ts E -> sub e' E) /\
  (length rem = length ts -> e' = e /\ rem = ts /\ forall t, In t ts -> step e t = None).
Proof.
  induction ts as [|t r IH]; intros e e' rem Hnd Hfr Hp; cbn in Hp.
  - inversion Hp; subst.
    split; [apply sub_refl|]. split; [apply incl_refl|]. split; [constructor|].
    split; [intros x []|]. split; [cbn; lia|]. split; [intros x []|].
    split; [intros E HE _; exact HE|]. intros _. split; [reflexivity|]. split; [reflexivity|]. intros x [].
  - inversion Hnd as [|? ? Hnotin Hnd']; subst.
    destruct (step e t) as [g|] eqn:Hs.
    + assert (Hfr' : fresh ((t, g) :: e) r).
      { intros x Hx; cbn. destruct (Keq x t) as [->|]; [contradiction|]. apply Hfr; now right. }
      destruct (IH _ _ _ Hnd' Hfr' Hp) as (Hsub & Hincl & Hndr & Hfrr & Hlen & Hcov & Hleast & Heq).
      assert (Hsub0 : sub e e').
      { eapply sub_trans; [apply sub_cons; apply Hfr; now left | exact Hsub]. }
      split; [exact Hsub0|]. split; [intros x Hx; right; auto|]. split; [exact Hndr|].
      split; [exact Hfrr|]. split; [cbn; lia|].
      split.
      { intros x [->|Hx]; [|auto]. right; exists g; apply Hsub; cbn.
        destruct (Keq x x); congruence. }
      split.
      { intros E HE Hc. apply Hleast.
        - intros k v; cbn. destruct (Keq k t) as [->|]; [|apply HE].
          intros [= ->]. apply Hc; [now left|]. eapply step_mono; eauto.
        - intros x v Hx; apply Hc; now right. }
      cbn; intros Hl; lia.
    + destruct (pass e r) as [e1 rem1] eqn:Hp1. inversion Hp; subst.
      assert (Hfr' : fresh e r) by (intros x Hx; apply Hfr; now right).
      destruct (IH _ _ _ Hnd' Hfr' Hp1) as (Hsub & Hincl & Hndr & Hfrr & Hlen & Hcov & Hleast & Heq).
      assert (Hte' : lookup e' t = None).
      { eapply pass_keeps_none; [exact Hp1 | exact Hnotin | apply Hfr; now left]. }
      split; [exact Hsub|].
      split; [intros x [->|Hx]; [now left | right; auto]|].
      split; [constructor; auto|].
      split; [intros x [->|Hx]; auto|].
      split; [cbn; lia|].
      split.
      { intros x [->|Hx]; [left; now left|]. destruct (Hcov x Hx) as [?|?]; [left; now right | now right]. }
      split.
      { intros E HE Hc. apply Hleast; auto. intros x v Hx; apply Hc; now right. }
      cbn; intros Hl. assert (Hl' : length rem1 = length r) by lia.
      destruct (Heq Hl') as (-> & -> & Hnone). split; [reflexivity|]. split; [reflexivity|].
      intros x [->|Hx]; auto.
Qed.

Theorem loop_env_least : forall fuel D e ef rem,
  NoDup D -> fresh e D -> length D <= fuel -> loop_env fuel e D = (ef, rem) ->
  sub e ef /\ incl rem D /\
  (forall t, In t rem -> step ef t = None) /\
  (forall t, In t D -> In t rem \/ exists g, lookup ef t = Some g) /\
  (forall E, sub e E -> complete D E -> sub ef E) /\
  (loop fuel e D = if Nat.eqb (length rem) 0 then Some ef else None).
Proof.
  induction fuel as [|f IH]; intros D e ef rem Hnd Hfr Hlen Hl.
  - destruct D; [|cbn in Hlen; lia]. cbn in Hl; inversion Hl; subst.
    repeat split; auto using sub_refl, incl_refl; easy.
  - destruct D as [|d D']; [cbn in Hl; inversion Hl; subst; repeat split; auto using sub_refl, incl_refl; easy|].
    remember (d :: D') as D eqn:HD.
    assert (Hl' : loop_env (S f) e D =
                  let '(e', rem) := pass e D in
                  if Nat.eqb (length rem) (length D) then (e', rem) else loop_env f e' rem)
      by (subst D; reflexivity).
    assert (Hlo : loop (S f) e D =
                  let '(e', rem) := pass e D in
                  if Nat.eqb (length rem) (length D) then None else loop f e' rem)
      by (subst D; reflexivity).
    rewrite Hl' in Hl; rewrite Hlo; clear Hl' Hlo.
    destruct (pass e D) as [e1 rem1] eqn:Hp.
    destruct (pass_spec _ _ _ _ Hnd Hfr Hp) as (Hsub & Hincl & Hndr & Hfrr & Hlen1 & Hcov & Hleast & Heq).
    destruct (Nat.eqb (length rem1) (length D)) eqn:Hb.
    + apply Nat.eqb_eq in Hb. inversion Hl; subst ef rem.
      destruct (Heq Hb) as (-> & -> & Hnone).
      repeat split; auto using sub_refl, incl_refl.
      subst D; cbn; reflexivity.
    + apply Nat.eqb_neq in Hb.
      assert (Hlt : length rem1 <= f) by lia.
      destruct (IH _ _ _ _ Hndr Hfrr Hlt Hl) as (Hsub2 & Hincl2 & Hnone2 & Hcov2 & Hleast2 & Hloop2).
      repeat split; auto.
      * eapply sub_trans; eauto.
      * intros x Hx; apply Hincl, Hincl2, Hx.
      * intros t Ht. destruct (Hcov t Ht) as [Hr|[g Hg]].
        -- destruct (Hcov2 t Hr) as [?|?]; auto.
        -- right; exists g; apply Hsub2; exact Hg.
      * intros E HE Hc. apply Hleast2; [apply Hleast; auto|].
        intros t g Ht; apply Hc; apply Hincl; exact Ht.
Qed.

End Retry.


(* order independence *)
Section Order.
Context (K G : Type) (Keq : forall a b : K, {a = b} + {a <> b}).
Context (step : env K G -> K -> option G)
        (step_mono : forall e e' k g, sub K G Keq e e' -> step e k = Some g -> step e' k = Some g).
Local Notation lookup := (lookup K G Keq).
Local Notation sub := (sub K G Keq).
Local Notation pass := (pass K G step).
Local Notation loop_env := (loop_env K G step).
Local Notation loop := (loop K G step).
Local Notation fresh := (fresh K G Keq).
Local Notation complete := (complete K G Keq step).

(* every registered value is what the step gives in the environment it is registered in (and, by monotonicity,
   in every later one) *)
Definition sound (E : env K G) : Prop := forall t g, lookup E t = Some g -> step E t = Some g.

Lemma pass_sound : forall ts e e' rem, sound e -> fresh e ts -> NoDup ts -> pass e ts = (e', rem) -> sound e'.
Proof.
  induction ts as [|t r IH]; intros e e' rem Hs Hfr Hnd Hp; cbn in Hp.
  - inversion Hp; subst; exact Hs.
  - inversion Hnd as [|? ? Hnotin Hnd']; subst.
    destruct (step e t) as [g|] eqn:Est.
    + assert (Hsub : sub e ((t, g) :: e)) by (apply (sub_cons K G Keq); apply Hfr; now left).
      eapply (IH ((t, g) :: e)); [| | exact Hnd' | exact Hp].
      * intros k v Hk. cbn in Hk. destruct (Keq k t) as [->|Hne].
        -- injection Hk as <-. eapply step_mono; eauto.
        -- eapply step_mono; [exact Hsub | apply Hs; exact Hk].
      * intros x Hx. cbn. destruct (Keq x t) as [->|]; [contradiction | apply Hfr; now right].
    + destruct (pass e r) as [e1 rem1] eqn:Hp1. inversion Hp; subst.
      eapply IH; [exact Hs | | exact Hnd' | exact Hp1]. intros x Hx; apply Hfr; now right.
Qed.

Lemma loop_env_sound : forall fuel D e ef rem, sound e -> NoDup D -> fresh e D -> loop_env fuel e D = (ef, rem) -> sound ef.
Proof.
  induction fuel as [|f IH]; intros D e ef rem Hs Hnd Hfr Hl.
  - destruct D; cbn in Hl; inversion Hl; subst; exact Hs.
  - destruct D as [|d D']; [cbn in Hl; inversion Hl; subst; exact Hs|].
    remember (d :: D') as D eqn:HD.
    assert (Hl' : loop_env (S f) e D = let '(e', rem) := pass e D in
                  if Nat.eqb (length rem) (length D) then (e', rem) else loop_env f e' rem) by (subst D; reflexivity).
    rewrite Hl' in Hl. clear Hl'. destruct (pass e D) as [e1 rem1] eqn:Hp.
    pose proof (pass_sound _ _ _ _ Hs Hfr Hnd Hp) as Hs1.
    destruct (pass_spec K G Keq step step_mono _ _ _ _ Hnd Hfr Hp) as (_ & _ & Hndr & Hfrr & _).
    destruct (Nat.eqb _ _); [inversion Hl; subst; exact Hs1|].
    eapply IH; [exact Hs1 | exact Hndr | exact Hfrr | exact Hl].
Qed.

Theorem retry_order_independent D D' e ef rem ef' rem' :
  sound e -> NoDup D -> NoDup D' -> (forall t, In t D <-> In t D') -> fresh e D ->
  loop_env (length D) e D = (ef, rem) -> loop_env (length D') e D' = (ef', rem') ->
  (forall k, lookup ef k = lookup ef' k) /\ (rem = [] <-> rem' = []).
Proof.
  intros Hse Hnd Hnd' Hp Hfr H1 H2.
  assert (Hfr' : fresh e D') by (intros t Ht; apply Hfr, Hp, Ht).
  destruct (loop_env_least K G Keq step step_mono _ _ _ _ _ Hnd Hfr (Nat.le_refl _) H1) as (S1 & I1 & N1 & C1 & L1 & _).
  destruct (loop_env_least K G Keq step step_mono _ _ _ _ _ Hnd' Hfr' (Nat.le_refl _) H2) as (S2 & I2 & N2 & C2 & L2 & _).
  pose proof (loop_env_sound _ _ _ _ _ Hse Hnd Hfr H1) as So1.
  pose proof (loop_env_sound _ _ _ _ _ Hse Hnd' Hfr' H2) as So2.
  assert (Cl1 : complete D' ef).
  { intros t g Ht Hs. apply Hp in Ht. destruct (C1 t Ht) as [Hr|[g' Hg']].
    - rewrite (N1 t Hr) in Hs. discriminate.
    - rewrite (So1 _ _ Hg') in Hs. now injection Hs as <-. }
  assert (Cl2 : complete D ef').
  { intros t g Ht Hs. apply Hp in Ht. destruct (C2 t Ht) as [Hr|[g' Hg']].
    - rewrite (N2 t Hr) in Hs. discriminate.
    - rewrite (So2 _ _ Hg') in Hs. now injection Hs as <-. }
  pose proof (L1 ef' S2 Cl2) as Sub12. pose proof (L2 ef S1 Cl1) as Sub21.
  assert (Heq : forall k, lookup ef k = lookup ef' k).
  { intros k. destruct (lookup ef k) as [g|] eqn:E1.
    - symmetry. apply Sub12. exact E1.
    - destruct (lookup ef' k) as [g'|] eqn:E2; [|reflexivity]. rewrite (Sub21 _ _ E2) in E1. discriminate. }
  split; [exact Heq|].
  (* nothing remains iff every element is resolved in the final environment *)
  assert (R1 : rem = [] <-> (forall t, In t D -> exists g, lookup ef t = Some g)).
  { split.
    - intros -> t Ht. destruct (C1 t Ht) as [[]|H]; exact H.
    - intros H. destruct rem as [|x r]; [reflexivity|]. exfalso.
      assert (Hx : In x D) by (apply I1; now left). destruct (H x Hx) as [g Hg].
      pose proof (So1 _ _ Hg) as Hs. rewrite (N1 x (or_introl eq_refl)) in Hs. discriminate. }
  assert (R2 : rem' = [] <-> (forall t, In t D' -> exists g, lookup ef' t = Some g)).
  { split.
    - intros -> t Ht. destruct (C2 t Ht) as [[]|H]; exact H.
    - intros H. destruct rem' as [|x r]; [reflexivity|]. exfalso.
      assert (Hx : In x D') by (apply I2; now left). destruct (H x Hx) as [g Hg].
      pose proof (So2 _ _ Hg) as Hs. rewrite (N2 x (or_introl eq_refl)) in Hs. discriminate. }
  rewrite R1, R2. split; intros H t Ht.
  - apply Hp in Ht. destruct (H t Ht) as [g Hg]. exists g. now rewrite <- Heq.
  - apply Hp in Ht. destruct (H t Ht) as [g Hg]. exists g. now rewrite Heq.
Qed.
End Order.
