(* Facts about the composed transform (Model/Svgdx.v). *)
From Coq Require Import String Ascii List Bool ZArith.
From SvgdxModel Require Import Base.Str Base.Res Num.F32 Model.Types Model.Xml Model.Pipeline Model.Svgdx.
Import ListNotations.
Open Scope string_scope.

(* a real SVG document goes through the whole transform exactly as through the pass-through of Model/Xml.v:
   neither the configuration, the seed nor the border / scale can influence the bytes written *)
Lemma real_svg_is_passthrough cfg seed border scale input toks :
  read_xml input = Some toks -> nesting_ok toks [] = true -> is_real_svg toks = true ->
  transform_doc cfg seed border scale input = Ok (write_to (map conv toks)).
Proof. intros Hr Hn Hs. unfold transform_doc. rewrite Hr, Hn, Hs. reflexivity. Qed.

Lemma real_svg_agrees_with_passthrough_doc cfg seed border scale input out :
  passthrough_doc input = Some (Some out) -> transform_doc cfg seed border scale input = Ok out.
Proof.
  unfold passthrough_doc. intros H. destruct (read_xml input) as [toks|] eqn:Hr; [|discriminate].
  destruct (nesting_ok toks []) eqn:Hn; [|discriminate].
  destruct (is_real_svg toks) eqn:Hs; [|discriminate]. injection H as <-.
  eapply real_svg_is_passthrough; eauto.
Qed.

(* what the reader rejects is rejected by the whole transform, with the reader's error *)
Lemma unreadable_is_parse_error cfg seed border scale input :
  read_xml input = None -> transform_doc cfg seed border scale input = Err EParse.
Proof. intros H. unfold transform_doc. rewrite H. reflexivity. Qed.
Lemma bad_nesting_is_parse_error cfg seed border scale input toks :
  read_xml input = Some toks -> nesting_ok toks [] = false -> transform_doc cfg seed border scale input = Err EParse.
Proof. intros H Hn. unfold transform_doc. rewrite H, Hn. reflexivity. Qed.
