(* Conversion of input elements to output elements (SvgElement::new + into_bytesstart): keys stay unique,
   names stay names, every non-class attribute value is preserved. *)
From Coq Require Import String Ascii List Bool Arith Lia Permutation.
From SvgdxModel Require Import Base.Str Base.Res Gen.Tables Model.Types Model.Xml Proofs.StrP Proofs.TypesP Proofs.XmlP.
Import ListNotations.
Open Scope string_scope.

Lemma in_keys_set a k v x : In x (keys (set a k v)) -> x = k \/ In x (keys a).
Proof.
  unfold set. intros H. apply (Permutation_in _ (Permutation_sym (keys_reorder_perm _))) in H.
  destruct (has a k).
  - rewrite keys_upd in H. now right.
  - unfold keys in *. rewrite map_app in H. apply in_app_or in H as [H|[H|[]]]; [now right | now left].
Qed.

Definition step_attr (acc : attrs) (kv : string * string) : attrs :=
  if String.eqb (fst kv) "class" then acc else set acc (fst kv) (snd kv).
Lemma el_attrs_fold a : el_attrs a = fold_left step_attr a [].
Proof. reflexivity. Qed.

Lemma fold_step_inv : forall a acc,
  NoDup (keys acc) -> ~ In "class" (keys acc) ->
  NoDup (keys (fold_left step_attr a acc)) /\ ~ In "class" (keys (fold_left step_attr a acc)) /\
  (forall x, In x (keys (fold_left step_attr a acc)) -> In x (keys acc) \/ In x (map fst a)).
Proof.
  induction a as [|[k v] a IH]; intros acc Hnd Hnc; cbn [fold_left].
  - repeat split; auto.
  - unfold step_attr at 2 4 6. cbn [fst snd]. destruct (String.eqb k "class") eqn:E.
    + destruct (IH acc Hnd Hnc) as (H1 & H2 & H3). repeat split; auto.
      intros x Hx. destruct (H3 x Hx); [now left | right; now right].
    + assert (Hnc' : ~ In "class" (keys (set acc k v))).
      { intros Hin. apply in_keys_set in Hin as [Hin|Hin]; [|now apply Hnc].
        apply String.eqb_neq in E. now apply E. }
      destruct (IH (set acc k v) (nodup_set _ _ _ Hnd) Hnc') as (H1 & H2 & H3). repeat split; auto.
      intros x Hx. destruct (H3 x Hx) as [Hx'|Hx']; [|right; now right].
      apply in_keys_set in Hx' as [->|Hx']; [right; now left | now left].
Qed.

Lemma nodup_keys_true a : nodup_keys a = true <-> NoDup (map fst a).
Proof.
  induction a as [|[k v] a IH]; cbn; [split; [constructor | reflexivity]|].
  rewrite andb_true_iff, negb_true_iff, IH. split.
  - intros [H1 H2]. constructor; [|exact H2]. intros Hin. apply mem_str_In in Hin. congruence.
  - intros H. inversion H as [|? ? Hn Hd]; subst. split; [|exact Hd].
    destruct (mem_str k (map fst a)) eqn:E; [|reflexivity]. apply mem_str_In in E. contradiction.
Qed.

Lemma out_attrs_keys a c : map fst (out_attrs a c) = keys a \/ map fst (out_attrs a c) = (keys a ++ ["class"])%list.
Proof. destruct c; cbn; [now left | right]. unfold keys. now rewrite map_app. Qed.

(* a well-formed input tag converts to a well-formed output tag: unique attribute names, class once *)
Theorem conv_tag_ok n a : tok_wf (TStart n a) -> tok_wf (tok_of (conv (TStart n a))) /\ tok_wf (tok_of (conv (TEmpty n a))).
Proof.
  intros (Hn & Hs & Ha & Hd). cbn [conv tok_of tok_wf].
  destruct (fold_step_inv a [] (NoDup_nil _) (fun H => H)) as (H1 & H2 & H3). rewrite <- el_attrs_fold in *.
  assert (Hok : attrs_ok (out_attrs (el_attrs a) (el_classes a)) /\ nodup_keys (out_attrs (el_attrs a) (el_classes a)) = true).
  { split.
    - unfold attrs_ok. apply Forall_forall. intros [k v] Hin. cbn [fst].
      assert (Hk : In k (map fst (out_attrs (el_attrs a) (el_classes a)))) by (apply in_map_iff; now exists (k, v)).
      destruct (out_attrs_keys (el_attrs a) (el_classes a)) as [E|E]; rewrite E in Hk.
      + destruct (H3 k Hk) as [[]|Hk']. unfold attrs_ok in Ha. rewrite Forall_forall in Ha.
        apply in_map_iff in Hk' as ([k' v'] & <- & Hin'). exact (Ha _ Hin').
      + apply in_app_or in Hk as [Hk|[<-|[]]]; [|reflexivity].
        destruct (H3 k Hk) as [[]|Hk']. unfold attrs_ok in Ha. rewrite Forall_forall in Ha.
        apply in_map_iff in Hk' as ([k' v'] & <- & Hin'). exact (Ha _ Hin').
    - apply nodup_keys_true. destruct (out_attrs_keys (el_attrs a) (el_classes a)) as [E|E]; rewrite E; [exact H1|].
      apply NoDup_app_nodup_single; assumption. }
  destruct Hok as (Hok1 & Hok2). repeat split; assumption.
Qed.

(* every attribute other than class keeps its value (input keys unique): the attribute part of the infoset *)
Lemma get_fold_step : forall a acc k, k <> "class" -> NoDup (keys acc) -> NoDup (map fst a) ->
  (forall x, In x (keys acc) -> ~ In x (map fst a)) ->
  get (fold_left step_attr a acc) k = match assoc k a with Some v => Some v | None => get acc k end.
Proof.
  induction a as [|[k1 v1] a IH]; intros acc k Hk Hnd Hda Hdis; cbn [fold_left assoc]; [reflexivity|].
  inversion Hda as [|? ? Hn1 Hda']; subst. unfold step_attr at 2. cbn [fst snd].
  destruct (String.eqb k1 "class") eqn:Ec.
  - apply String.eqb_eq in Ec. subst k1. destruct (String.eqb k "class") eqn:E; [apply String.eqb_eq in E; contradiction|].
    apply IH; auto. intros x Hx Hin. apply (Hdis x Hx). now right.
  - rewrite IH; auto using nodup_set.
    + destruct (String.eqb k k1) eqn:E.
      * apply String.eqb_eq in E. subst k1.
        assert (Hna : assoc k a = None).
        { clear - Hn1. induction a as [|[k2 v2] a IHa]; [reflexivity|]. cbn in *.
          destruct (String.eqb k k2) eqn:E2; [apply String.eqb_eq in E2; subst; exfalso; apply Hn1; now left|].
          apply IHa. intros H. apply Hn1. now right. }
        rewrite Hna. now apply get_set_same.
      * destruct (assoc k a); [reflexivity|]. apply get_set_other; [exact Hnd|]. apply String.eqb_neq in E. congruence.
    + intros x Hx Hin. apply in_keys_set in Hx as [->|Hx]; [contradiction|]. apply (Hdis x Hx). now right.
Qed.
Lemma get_out_attrs a c k : k <> "class" -> get (out_attrs a c) k = get a k.
Proof.
  intros Hk. destruct c; [reflexivity|]. cbn [out_attrs]. rewrite get_app. destruct (get a k); [reflexivity|].
  cbn. destruct (String.eqb k "class") eqn:E; [apply String.eqb_eq in E; contradiction | reflexivity].
Qed.
Theorem passthrough_attr_preserved n a k : tok_wf (TStart n a) -> k <> "class" ->
  get (out_attrs (el_attrs a) (el_classes a)) k = assoc k a.
Proof.
  intros (_ & _ & _ & Hd) Hk. rewrite get_out_attrs by exact Hk. rewrite el_attrs_fold.
  rewrite get_fold_step; [destruct (assoc k a); reflexivity | exact Hk | constructor | now apply nodup_keys_true | intros x []].
Qed.

(* everything that is not a tag or text is written back exactly as read *)
Theorem passthrough_other_verbatim t : match t with TText _ | TStart _ _ | TEmpty _ _ => False | _ => True end -> tok_of (conv t) = t.
Proof. destruct t; cbn; intros H; try contradiction; reflexivity. Qed.
