(* C07 Front-ends agree, transforms are isolated, failures leave no damage.
   Every theorem is for ALL document transforms T, all name spaces (canon) and file-identity
   relations (same), all file systems f and all request histories h. *)
From Coq Require Import String List Bool Arith.
From SvgdxModel Require Import Base.Str Gen.Tables Model.Front Proofs.FrontP.
Import ListNotations.
Open Scope string_scope.

(* ---- a failed request leaves every file untouched (the whole file system is unchanged) *)
Theorem failed_request_preserves_fs :
  forall (cfg : Type) (T : bytes -> cfg -> tres) (http_cfg : bool -> cfg) (canon : string -> option string)
         (same : string -> string -> bool) (enoent : bytes) (f : fs) (r : request),
  failed (snd (step T http_cfg canon same enoent f r)) = true -> fst (step T http_cfg canon same enoent f r) = f.
Proof. exact (@step_failed_fs). Qed.

(* ---- histories: the final file system of any history is what its successful requests alone
   produce, and they observe the same; a history of failures changes nothing *)
Theorem failed_requests_leave_no_trace :
  forall (cfg : Type) (T : bytes -> cfg -> tres) (http_cfg : bool -> cfg) (canon : string -> option string)
         (same : string -> string -> bool) (enoent : bytes) (h : list request) (f : fs),
  fst (run T http_cfg canon same enoent f (keep_ok T http_cfg canon same enoent f h)) = fst (run T http_cfg canon same enoent f h) /\
  snd (run T http_cfg canon same enoent f (keep_ok T http_cfg canon same enoent f h))
    = filter (fun o => negb (failed o)) (snd (run T http_cfg canon same enoent f h)).
Proof. exact (@run_keep_ok). Qed.

Theorem failing_history_preserves_fs :
  forall (cfg : Type) (T : bytes -> cfg -> tres) (http_cfg : bool -> cfg) (canon : string -> option string)
         (same : string -> string -> bool) (enoent : bytes) (h : list request) (f : fs),
  forallb failed (snd (run T http_cfg canon same enoent f h)) = true -> fst (run T http_cfg canon same enoent f h) = f.
Proof. exact (@all_failed_fs). Qed.

(* ---- a failure is reported: Err value / non-zero exit status with a message / 400 text/plain *)
Theorem transform_error_fails_request :
  forall (cfg : Type) (T : bytes -> cfg -> tres) (http_cfg : bool -> cfg) (canon : string -> option string)
         (same : string -> string -> bool) (enoent : bytes) (f : fs) (r : request) inp c p d g,
  carries http_cfg canon f r = Some (inp, c) -> T inp c = TErr p d g ->
  failed (snd (step T http_cfg canon same enoent f r)) = true.
Proof. exact (@error_fails). Qed.

Theorem failure_is_reported :
  forall (cfg : Type) (T : bytes -> cfg -> tres) (http_cfg : bool -> cfg) (canon : string -> option string)
         (same : string -> string -> bool) (enoent : bytes) (f : fs) (r : request),
  failed (snd (step T http_cfg canon same enoent f r)) = true -> reported (snd (step T http_cfg canon same enoent f r)).
Proof. exact (@failed_reported). Qed.

(* ---- the command refuses to write over its own input, for every pair of spellings that
   canonicalise to the same path (symlinks, ./sub/../, ...) *)
Theorem same_file_refused :
  forall (cfg : Type) (T : bytes -> cfg -> tres) (http_cfg : bool -> cfg) (canon : string -> option string)
         (same : string -> string -> bool) (enoent : bytes) (f : fs) file output stdin (c : cfg) ci,
  is_stdio file = false -> is_stdio output = false ->
  canon file = Some ci -> canon output = Some ci -> f ci <> None ->
  step T http_cfg canon same enoent f (RCli file output stdin c) =
    (f, OCli 1 "" ("Error: MessageError(""Output path must not refer to the same file as the input file."")" ++ nlstr)).
Proof. exact (@same_file_refused_step). Qed.

(* the full statement also covers other names of the same FILE (hard links); it is false: K22 *)
Definition full_same_file_refused : Prop :=
  forall (cfg : Type) (T : bytes -> cfg -> tres) (http_cfg : bool -> cfg) (canon : string -> option string)
         (same : string -> string -> bool) (enoent : bytes) (f : fs) file output stdin (c : cfg) ci co,
  is_stdio file = false -> is_stdio output = false ->
  canon file = Some ci -> canon output = Some co -> (ci = co \/ same ci co = true) -> f ci <> None -> f co <> None ->
  failed (snd (step T http_cfg canon same enoent f (RCli file output stdin c))) = true.
Theorem same_file_refused_hardlink_refuted : ~ full_same_file_refused.
Proof. exact full_same_file_refuted_l. Qed.
Theorem hardlink_output_overwrites_input :
  same_ex "/d/in.xml" "/d/hard.xml" = true /\
  snd (step_ex fs_ex (RCli "in.xml" "hard.xml" "" "")) = OCli 0 "" "" /\
  fs_ex "/d/in.xml" = Some doc_good /\
  fst (step_ex fs_ex (RCli "in.xml" "hard.xml" "" "")) "/d/in.xml" = Some out_good.
Proof. exact k22_witness. Qed.

(* ---- isolation: an observation depends on the request itself and on the files it names as
   they are when it runs - on nothing else of the history or of the process *)
Theorem observation_depends_only_on_own_request :
  forall (cfg : Type) (T : bytes -> cfg -> tres) (http_cfg : bool -> cfg) (canon : string -> option string)
         (same : string -> string -> bool) (enoent : bytes) (f1 f2 : fs) (h1 h2 : list request) (r : request) d,
  agree_on canon r (fst (run T http_cfg canon same enoent f1 h1)) (fst (run T http_cfg canon same enoent f2 h2)) ->
  last (snd (run T http_cfg canon same enoent f1 (h1 ++ [r])%list)) d = last (snd (run T http_cfg canon same enoent f2 (h2 ++ [r])%list)) d.
Proof. exact (@obs_history_independent). Qed.

(* library calls, server requests and stdin->stdout commands: independent of everything *)
Theorem pure_request_history_independent :
  forall (cfg : Type) (T : bytes -> cfg -> tres) (http_cfg : bool -> cfg) (canon : string -> option string)
         (same : string -> string -> bool) (enoent : bytes) (f1 f2 : fs) (h1 h2 : list request) (r : request) d,
  touches_fs r = false ->
  last (snd (run T http_cfg canon same enoent f1 (h1 ++ [r])%list)) d = last (snd (run T http_cfg canon same enoent f2 (h2 ++ [r])%list)) d.
Proof. exact (@pure_obs_history_independent). Qed.

Theorem observation_at_any_position :
  forall (cfg : Type) (T : bytes -> cfg -> tres) (http_cfg : bool -> cfg) (canon : string -> option string)
         (same : string -> string -> bool) (enoent : bytes) (h1 : list request) (r : request) (t : list request) (f : fs) d,
  nth (length h1) (snd (run T http_cfg canon same enoent f (h1 ++ r :: t)%list)) d
    = snd (step T http_cfg canon same enoent (fst (run T http_cfg canon same enoent f h1)) r).
Proof. exact (@obs_nth_independent). Qed.

(* any number of file-less requests, in any order: each observes what it would observe alone *)
Theorem pure_history_observations_are_solo :
  forall (cfg : Type) (T : bytes -> cfg -> tres) (http_cfg : bool -> cfg) (canon : string -> option string)
         (same : string -> string -> bool) (enoent : bytes) (h : list request) (f f0 : fs),
  forallb (fun r => negb (touches_fs r)) h = true ->
  fst (run T http_cfg canon same enoent f h) = f /\
  snd (run T http_cfg canon same enoent f h) = map (fun r => snd (step T http_cfg canon same enoent f0 r)) h.
Proof. exact (@pure_history_solo). Qed.

Theorem pure_request_preserves_fs :
  forall (cfg : Type) (T : bytes -> cfg -> tres) (http_cfg : bool -> cfg) (canon : string -> option string)
         (same : string -> string -> bool) (enoent : bytes) (f : fs) (r : request),
  touches_fs r = false -> fst (step T http_cfg canon same enoent f r) = f.
Proof. exact (@step_pure_fs). Qed.

Theorem command_touches_only_its_output :
  forall (cfg : Type) (T : bytes -> cfg -> tres) (http_cfg : bool -> cfg) (canon : string -> option string)
         (same : string -> string -> bool) (enoent : bytes) (f : fs) file output stdin (c : cfg) q,
  (forall co, canon output = Some co -> q <> co /\ same co q = false) ->
  fst (step T http_cfg canon same enoent f (RCli file output stdin c)) q = f q.
Proof. exact (@cli_touches_only_output). Qed.

(* ---- every front-end delivers exactly T's bytes (return value, writer, stdout, output file,
   response body), or nothing when T fails; outside the K11 class and when the command is not
   refused / can open its output *)
Theorem frontends_render_same_result :
  forall (cfg : Type) (T : bytes -> cfg -> tres) (http_cfg : bool -> cfg) (canon : string -> option string)
         (same : string -> string -> bool) (enoent : bytes) (f : fs) (r : request) inp c,
  carries http_cfg canon f r = Some (inp, c) -> k11_class T http_cfg r = false -> cli_blocked canon enoent f r = false ->
  delivered canon (fst (step T http_cfg canon same enoent f r)) r (snd (step T http_cfg canon same enoent f r))
    = result_bytes (T inp c).
Proof. exact (@delivered_is_result). Qed.

Theorem frontends_agree :
  forall (cfg : Type) (T : bytes -> cfg -> tres) (http_cfg : bool -> cfg) (canon : string -> option string)
         (same : string -> string -> bool) (enoent : bytes) (f1 f2 : fs) (r1 r2 : request) inp c,
  carries http_cfg canon f1 r1 = Some (inp, c) -> carries http_cfg canon f2 r2 = Some (inp, c) ->
  k11_class T http_cfg r1 = false -> k11_class T http_cfg r2 = false ->
  cli_blocked canon enoent f1 r1 = false -> cli_blocked canon enoent f2 r2 = false ->
  delivered canon (fst (step T http_cfg canon same enoent f1 r1)) r1 (snd (step T http_cfg canon same enoent f1 r1))
    = delivered canon (fst (step T http_cfg canon same enoent f2 r2)) r2 (snd (step T http_cfg canon same enoent f2 r2)).
Proof. exact (@frontends_agree_lemma). Qed.

Theorem command_success_writes_output :
  forall (cfg : Type) (T : bytes -> cfg -> tres) (http_cfg : bool -> cfg) (canon : string -> option string)
         (same : string -> string -> bool) (enoent : bytes) (f : fs) file output stdin (c : cfg),
  is_stdio output = false -> failed (snd (step T http_cfg canon same enoent f (RCli file output stdin c))) = false ->
  exists inp out, carries http_cfg canon f (RCli file output stdin c) = Some (inp, c) /\ T inp c = TOk out /\
                  read canon (fst (step T http_cfg canon same enoent f (RCli file output stdin c))) output = Some out.
Proof. exact (@cli_success_writes). Qed.

(* the full agreement statement has no K11 exclusion; it is false: empty output is Ok("") from
   the library and 400 from the server *)
Definition full_frontends_agree : Prop :=
  forall (cfg : Type) (T : bytes -> cfg -> tres) (http_cfg : bool -> cfg) (canon : string -> option string)
         (same : string -> string -> bool) (enoent : bytes) (f1 f2 : fs) (r1 r2 : request) inp c,
  carries http_cfg canon f1 r1 = Some (inp, c) -> carries http_cfg canon f2 r2 = Some (inp, c) ->
  cli_blocked canon enoent f1 r1 = false -> cli_blocked canon enoent f2 r2 = false ->
  delivered canon (fst (step T http_cfg canon same enoent f1 r1)) r1 (snd (step T http_cfg canon same enoent f1 r1))
    = delivered canon (fst (step T http_cfg canon same enoent f2 r2)) r2 (snd (step T http_cfg canon same enoent f2 r2)).
Theorem server_empty_output_refuted : ~ full_frontends_agree.
Proof. exact full_agree_refuted_l. Qed.
Theorem server_empty_output :
  forall (cfg : Type) (T : bytes -> cfg -> tres) (http_cfg : bool -> cfg) (canon : string -> option string)
         (same : string -> string -> bool) (enoent : bytes) (f : fs) inp meta,
  T inp (http_cfg meta) = TOk "" ->
  step T http_cfg canon same enoent f (RHttp inp meta) = (f, OHttp 400 "text/plain" "Error: Empty response") /\
  step T http_cfg canon same enoent f (RStr inp (http_cfg meta)) = (f, OLibOk "").
Proof. exact (@server_empty_output). Qed.

(* ---- the hypotheses are satisfiable: a concrete name space with a symlink, a dotted spelling,
   a hard link and an old output file; a history mixing the four front-ends, successes and failures *)
Example refusal_through_symlink_and_dots :
  snd (step_ex fs_ex (RCli "in.xml" "sym.xml" "" "")) = snd (step_ex fs_ex (RCli "in.xml" "./sub/../in.xml" "" "")) /\
  failed (snd (step_ex fs_ex (RCli "in.xml" "sym.xml" "" ""))) = true /\
  canon_ex "sym.xml" = canon_ex "in.xml" /\ canon_ex "./sub/../in.xml" = canon_ex "in.xml".
Proof. vm_compute. repeat split. Qed.

Example mixed_history :
  let h := [RCli "bad.xml" "out.svg" "" ""; RHttp doc_bad false; RCli "in.xml" "out.svg" "" ""; RStr doc_good "";
            RCli "-" "-" doc_good ""; RCli "missing.xml" "out.svg" "" ""; RCli "out.svg" "nodir/x.svg" "" ""; RHttp doc_good true] in
  map failed (snd (run_ex fs_ex h)) = [true; true; false; false; false; true; true; false] /\
  fst (run_ex fs_ex h) "/d/out.svg" = Some out_good /\
  fst (run_ex fs_ex (firstn 2 h)) "/d/out.svg" = Some "OLD" /\
  keep_ok T_ex http_ex canon_ex same_ex enoent_ex fs_ex h = [RCli "in.xml" "out.svg" "" ""; RStr doc_good ""; RCli "-" "-" doc_good ""; RHttp doc_good true].
Proof. vm_compute. repeat split. Qed.

Example agreement_instance :
  delivered canon_ex (fst (step_ex fs_ex (RCli "in.xml" "new.svg" "" ""))) (RCli "in.xml" "new.svg" "" "") (snd (step_ex fs_ex (RCli "in.xml" "new.svg" "" ""))) = Some out_good /\
  delivered canon_ex fs_ex (@RHttp string doc_good false) (snd (step_ex fs_ex (RHttp doc_good false))) = Some out_good /\
  delivered canon_ex fs_ex (RStream doc_good "") (snd (step_ex fs_ex (RStream doc_good ""))) = Some out_good.
Proof. vm_compute. repeat split. Qed.

Print Assumptions failed_request_preserves_fs. Print Assumptions failed_requests_leave_no_trace.
Print Assumptions failing_history_preserves_fs. Print Assumptions transform_error_fails_request.
Print Assumptions failure_is_reported. Print Assumptions same_file_refused.
Print Assumptions same_file_refused_hardlink_refuted. Print Assumptions hardlink_output_overwrites_input.
Print Assumptions observation_depends_only_on_own_request. Print Assumptions pure_request_history_independent.
Print Assumptions observation_at_any_position. Print Assumptions pure_request_preserves_fs.
Print Assumptions command_touches_only_its_output. Print Assumptions frontends_render_same_result.
Print Assumptions frontends_agree. Print Assumptions command_success_writes_output.
Print Assumptions pure_history_observations_are_solo.
Print Assumptions server_empty_output_refuted. Print Assumptions server_empty_output.
