(* C11 Uniform positioning: equivalent constraints give identical geometry.
   Only statements, each closed by [exact], pinned by [Check], with [Print Assumptions]. *)
From Coq Require Import QArith String List Bool.
From SvgdxModel Require Import Base.Str Num.NumOps Gen.Tables Model.Types Model.Geom Model.Position
  Model.Element Proofs.TypesP Proofs.StrP Proofs.PositionP.
Import ListNotations.

(* any two distinct quantities out of {start, end, centre, length} of an interval give the interval *)
Theorem extent_any_sufficient_pair :
  forall (line : bool) (q1 q2 : quant) (a b : Q), quant_eqb q1 q2 = false ->
  pair_eq (extent QOps line (pick Qs q1 q2 a b) (pick Qe q1 q2 a b) (pick Qm q1 q2 a b) (pick Ql q1 q2 a b))
          (Some (a, b)).
Proof. exact extent_pair. Qed.

(* all 36 per-axis pair combinations, any shape name, any dx/dy: to_bbox is the box *)
Theorem to_bbox_any_pair :
  forall shape q1 q2 q3 q4 x1 y1 x2 y2 dx dy,
  quant_eqb q1 q2 = false -> quant_eqb q3 q4 = false ->
  bb_eq (to_bbox QOps (pos_of_pairs shape q1 q2 q3 q4 x1 y1 x2 y2 dx dy)) x1 y1 x2 y2.
Proof. exact to_bbox_pairs. Qed.

(* circle: a pair on x and a single start/centre/end on y complete to the square box *)
Theorem to_bbox_circle_single_axis :
  forall q1 q2 sy x1 y1 x2, quant_eqb q1 q2 = false ->
  bb_eq (to_bbox QOps (pos_circle_x q1 q2 sy x1 y1 x2)) x1 y1 x2 (y1 + (x2 - x1)).
Proof. exact to_bbox_circle. Qed.

(* shorthand = longhand: two values with any separator run, or one value used twice *)
Theorem shorthand_two_values :
  forall a sep b, plain a -> sepstr sep -> token b -> split_compound_attr (a ++ sep ++ b) = (a, b).
Proof. exact split_compound_two. Qed.
Theorem shorthand_one_value : forall a, plain a -> split_compound_attr a = (a, a).
Proof. exact split_compound_one. Qed.
Theorem shorthand_expands_to_longhand :
  forall a k k1 k2 x sep y, get a k = Some (x ++ sep ++ y)%string -> plain x -> sepstr sep -> token y ->
  expand_one a (k, (k1, k2)) = set_first (set_first (pop a k) k1 x) k2 y.
Proof. exact expand_one_two. Qed.
Theorem shorthand_table_complete : tables_have_shorthands = true.
Proof. exact tables_shorthands_ok. Qed.

(* only native geometry attributes are left (any number instance, any attribute map with unique keys) *)
Theorem native_only :
  forall (N : NumOps) strp fstr fdisplay shape p a bb k,
  In shape four_shapes -> to_bbox N p = Some bb -> NoDup (keys a) ->
  In k geom_vocab -> ~ In k (native_attrs shape) ->
  get (set_position_attrs N strp fstr fdisplay p shape a) k = None.
Proof. exact native_only_gen. Qed.

(* non-vacuity: the hypotheses are met by concrete non-trivial instances *)
Example pair_example : bb_eq (to_bbox QOps (pos_of_pairs "rect" Qe Qm Qs Ql 3 (-2) (7#2) 5 None None)) 3 (-2) (7#2) 5.
Proof. apply to_bbox_pairs; reflexivity. Qed.
Example shorthand_example : split_compound_attr "10.5,  -3" = ("10.5", "-3")%string.
Proof. apply (split_compound_two "10.5" ",  " "-3"); repeat split; reflexivity. Qed.

Check extent_any_sufficient_pair : forall (line : bool) (q1 q2 : quant) (a b : Q), quant_eqb q1 q2 = false ->
  pair_eq (extent QOps line (pick Qs q1 q2 a b) (pick Qe q1 q2 a b) (pick Qm q1 q2 a b) (pick Ql q1 q2 a b)) (Some (a, b)).
Check native_only.
Print Assumptions extent_any_sufficient_pair.
Print Assumptions to_bbox_any_pair.
Print Assumptions to_bbox_circle_single_axis.
Print Assumptions shorthand_two_values.
Print Assumptions shorthand_one_value.
Print Assumptions shorthand_expands_to_longhand.
Print Assumptions shorthand_table_complete.
Print Assumptions native_only.
