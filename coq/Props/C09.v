(* C09 Relative positioning places elements exactly where the relspec says (exact arithmetic). *)
From Coq Require Import QArith String List Bool.
From SvgdxModel Require Import Base.Str Num.NumOps Gen.Tables Model.Types Model.Geom Model.Position
  Model.Element Proofs.RelPosP.
Import ListNotations.

Theorem relh : forall (R : QB) w h g,
  let '(x, y) := dir_place QOps InFront R w h g in x == bx2 R + g /\ y + h / 2 == cyq R.
Proof. exact relh_spec. Qed.
Theorem relH : forall (R : QB) w h g,
  let '(x, y) := dir_place QOps Behind R w h g in x + w == bx1 R - g /\ y + h / 2 == cyq R.
Proof. exact relH_spec. Qed.
Theorem relv : forall (R : QB) w h g,
  let '(x, y) := dir_place QOps Below R w h g in y == by2 R + g /\ x + w / 2 == cxq R.
Proof. exact relv_spec. Qed.
Theorem relV : forall (R : QB) w h g,
  let '(x, y) := dir_place QOps Above R w h g in y + h == by1 R - g /\ x + w / 2 == cxq R.
Proof. exact relV_spec. Qed.

(* for every row of the GENERATED xy-loc table (and the default top-left): the anchor named by
   xy-loc lands on the referenced location (any of the 9 + 4 edge forms) plus (dx, dy) *)
Theorem at_loc : Forall at_loc_row (("tl", xy_loc_default) :: xy_loc_table)%string.
Proof. exact at_loc_all. Qed.

Theorem scalar_ref : forall (R : QB), bx1 R <= bx2 R -> by1 R <= by2 R ->
  bb_scalarspec QOps R Minx == bx1 R /\ bb_scalarspec QOps R Maxx == bx2 R /\
  bb_scalarspec QOps R Miny == by1 R /\ bb_scalarspec QOps R Maxy == by2 R /\
  bb_scalarspec QOps R Cx == cxq R /\ bb_scalarspec QOps R Cy == cyq R /\
  bb_scalarspec QOps R Width == bx2 R - bx1 R /\ bb_scalarspec QOps R Height == by2 R - by1 R /\
  bb_scalarspec QOps R Rx == (bx2 R - bx1 R) / 2 /\ bb_scalarspec QOps R Ry == (by2 R - by1 R) / 2.
Proof. exact scalar_ref_spec. Qed.

Theorem rel_size : forall v a r : Q,
  len_adjust QOps (LAbs a) v == v + a /\ len_adjust QOps (LRatio r) v == v * r.
Proof. exact len_adjust_spec. Qed.

Theorem calc_offset : forall s e a r : Q, s <= e ->
  (0 <= a -> len_calc_offset QOps (LAbs a) s e == s + a) /\
  (a < 0 -> len_calc_offset QOps (LAbs a) s e == e + a) /\
  len_calc_offset QOps (LRatio r) s e == s + (e - s) * r.
Proof. exact calc_offset_spec. Qed.

(* reference chains of any length *)
Theorem chain : forall (l : list (Q * Q * Q)) (R : QB),
  bx2 (fold_left place_h l R) == bx2 R + sum_w l /\ cyq (fold_left place_h l R) == cyq R.
Proof. exact chain_h_spec. Qed.

Example chain_example :
  bx2 (fold_left place_h [(4, 2, 1); (3, 5, (1#2))] (qbb 0 0 10 10)) == 10 + (4 + 1 + (3 + (1#2) + 0)).
Proof. apply chain_h_spec. Qed.

Print Assumptions relh. Print Assumptions relH. Print Assumptions relv. Print Assumptions relV.
Print Assumptions at_loc. Print Assumptions scalar_ref. Print Assumptions rel_size.
Print Assumptions calc_offset. Print Assumptions chain.
