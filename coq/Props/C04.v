(* C04 Standard SVG content inside svgdx documents is accepted and preserved. *)
From Coq Require Import String Ascii List Bool.
From SvgdxModel Require Import Base.Str Base.Res Num.NumOps Gen.Tables Model.Types Model.Geom Model.Position Model.Scan
  Proofs.TypesP Proofs.StrP Proofs.PositionP Proofs.ScanP.
Import ListNotations.
Open Scope string_scope.

(* SVG list syntax: any number of tokens, joined by arbitrary runs of white space and commas, is split into
   exactly those tokens (points lists, shorthand value lists) *)
Theorem list_syntax_accepted : forall rest t0, token t0 -> Forall (fun p => sepstr (fst p) /\ token (snd p)) rest ->
  attr_split (join_sep t0 rest) = t0 :: map snd rest.
Proof. exact attr_split_list. Qed.
Theorem points_tokenised_like_lists : forall s, points_tokens s = attr_split s.
Proof. exact points_tokens_attr_split. Qed.
(* a points attribute is read as exactly its numbers, whatever the separators; an unreadable token rejects it *)
Theorem points_accepted : forall N strp t0 rest vals, token t0 -> Forall (fun p => sepstr (fst p) /\ token (snd p)) rest ->
  Forall2 (fun t v => strp t = Some v) (t0 :: map snd rest) vals ->
  points_values N strp (join_sep t0 rest) = Ok vals.
Proof. exact points_accepts. Qed.
Theorem points_bad_token_rejected : forall N strp t0 rest, token t0 -> Forall (fun p => sepstr (fst p) /\ token (snd p)) rest ->
  (exists t, In t (t0 :: map snd rest) /\ strp t = None) -> points_values N strp (join_sep t0 rest) = Err EParse.
Proof. exact points_rejects_bad_token. Qed.

(* the position rewriting of the four basic shapes leaves every attribute outside the geometry vocabulary untouched
   (for every number instance, every element, with or without a computed bounding box) *)
Theorem other_attributes_untouched : forall N strp fstr fdisplay shape p a k,
  In shape four_shapes -> NoDup (keys a) -> ~ In k geom_vocab ->
  get (set_position_attrs N strp fstr fdisplay p shape a) k = get a k.
Proof. exact frame_other_attrs. Qed.
(* ... and the GENERATED remove lists name geometry attributes only *)
Theorem removed_attributes_are_geometry : forallb removes_in_vocab four_shapes = true.
Proof. exact tables_removes_in_vocab. Qed.

Example points_example : attr_split "10,20  30.5 , -4
 5e1" = ["10"; "20"; "30.5"; "-4"; "5e1"].
Proof. vm_compute. reflexivity. Qed.

Print Assumptions list_syntax_accepted. Print Assumptions points_tokenised_like_lists. Print Assumptions points_accepted.
Print Assumptions points_bad_token_rejected. Print Assumptions other_attributes_untouched. Print Assumptions removed_attributes_are_geometry.
