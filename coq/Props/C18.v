(* C18 Reuse instantiates templates as if written out by hand (the skeleton part: independence of instances, the
   template is the first registration, specs render nothing). For every evaluator, leaf and instantiation function. *)
From Coq Require Import String Ascii List Bool ZArith.
From SvgdxModel Require Import Base.Str Base.Res Num.F32 Num.F64 Num.NumOps Gen.Tables Model.Types Model.Geom
  Model.Position Model.Scan Model.Element Model.Xml Model.Pipeline Proofs.PipelineP.
Import ListNotations.
Open Scope string_scope.

Section C18.
Context (N : NumOps) (ES : Type)
  (eva : (string -> option string) -> emap N -> string -> ES -> res (string * ES))
  (evc : (string -> option string) -> emap N -> string -> ES -> res (bool * ES))
  (evl : (string -> option string) -> emap N -> string -> ES -> res (list string * ES))
  (leaf : pctx N ES -> el N -> res (evs * option (bbox N)) * lst N ES)
  (el_bbox_of : el N -> res (option (bbox N)))
  (instantiate : pctx N ES -> el N -> el N -> res (el N) * lst N ES)
  (kidtab : Z -> option (list (node N)))
  (clip : pctx N ES -> el N -> option (bbox N) -> res (option (bbox N)) * lst N ES)
  (text_unescape : string -> string).
Local Notation gen_reuse := (gen_reuse N ES eva evc evl leaf el_bbox_of instantiate kidtab clip text_unescape).
Local Notation gen_specs := (gen_specs N ES eva evc evl leaf el_bbox_of instantiate kidtab clip text_unescape).

(* instances are independent of one another: the bindings of a reuse element are gone when it is done, Ok or Err *)
Theorem instances_independent : forall fuel e c r c', nn N ES c -> gen_reuse fuel e c = (r, c') ->
  px_scopes N ES c' = px_scopes N ES c /\ px_estack N ES c' = px_estack N ES c.
Proof. exact (reuse_scopes_exact N ES eva evc evl leaf el_bbox_of instantiate kidtab clip text_unescape). Qed.

(* the template is the first registered (unevaluated) form of the element; later registrations do not change it *)
Theorem template_is_first_registration : forall c e id0 e0, assoc id0 (l_orig N ES (px_l N ES c)) = Some e0 ->
  (forall i, assoc i (l_orig N ES (px_l N ES c)) <> None -> assoc i (l_map N ES (px_l N ES c)) <> None) ->
  assoc id0 (l_orig N ES (px_l N ES (update_element N ES eva c e))) = Some e0.
Proof. exact (original_is_first_registration N ES eva). Qed.

(* content of <specs> is never rendered *)
Theorem specs_not_rendered : forall fuel e kids c ev b c', gen_specs fuel e kids c = (Ok (ev, b), c') -> ev = [] /\ b = None.
Proof. exact (specs_renders_nothing N ES eva evc evl leaf el_bbox_of instantiate kidtab clip text_unescape). Qed.
End C18.

Print Assumptions instances_independent. Print Assumptions template_is_first_registration. Print Assumptions specs_not_rendered.
