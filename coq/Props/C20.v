(* C20 Auto-styles are self-consistent, minimal and leave author styles alone.
   Model: Model/Themes.v (ThemeBuilder::build as filters over the tables generated from themes.rs /
   colours.rs; write_auto_styles' collection; postprocess' injection condition). *)
From Coq Require Import String List Bool ZArith Permutation.
From SvgdxModel Require Import Base.Str Base.Res Num.F32 Gen.Tables Model.Themes Model.ThemesVocab Proofs.ThemesP Proofs.ThemesClosureP.
Import ListNotations.
Open Scope string_scope.

(* A style rule owned by a reserved class c is emitted iff c is in the class set - and, for the text
   classes (needs_text), a `text` element is in the element set: the code's actual condition, which is
   weaker than the property text (known finding K50). For every class list, element list, theme and
   settings; reservedb covers the colour vocabulary x 4 prefixes, text, stroke, arrow, dash/flow, shadow
   classes and the six pattern families with any numeric suffix the code accepts. *)
Theorem rule_iff_class : forall st els cls items c,
  build st els cls = Ok items -> reservedb c = true ->
  ((exists i, In i items /\ is_def i = false /\ owner i = Some c) <->
   In c cls /\ (needs_text c = true -> text_gate els = true)).
Proof. exact rule_iff_class_build. Qed.

(* the same through write_auto_styles: "iff some output element uses that class" *)
Theorem rule_iff_class_used : forall st evs items c,
  auto_styles true true st evs = Some (Ok items) -> reservedb c = true ->
  ((exists i, In i items /\ is_def i = false /\ owner i = Some c) <->
   (exists ev, In ev evs /\ In c (snd ev)) /\ (needs_text c = true -> text_gate (collect_elements evs) = true)).
Proof. exact auto_styles_iff. Qed.

(* every (#id reference in an emitted rule or definition is defined exactly once among the emitted
   definitions, and every emitted definition is referenced (minimality of the <defs>) - for every
   duplicate-free class list, every element list, every theme; settings_cleanb: the user's own
   background / font strings contain no url reference or id attribute themselves. *)
Theorem url_closure : forall st els cls items,
  build st els cls = Ok items -> NoDup cls -> settings_cleanb st = true ->
  (forall id, In id (refs_of items) -> count_occ string_dec (ids_of items) id = 1%nat) /\
  (forall id, In id (ids_of items) -> In id (refs_of items)).
Proof. exact url_closure_build. Qed.
Theorem url_closure_used : forall st evs items,
  auto_styles true true st evs = Some (Ok items) -> settings_cleanb st = true ->
  (forall id, In id (refs_of items) -> count_occ string_dec (ids_of items) id = 1%nat) /\
  (forall id, In id (ids_of items) -> In id (refs_of items)).
Proof. exact auto_styles_closure. Qed.

Theorem no_injection_when_disabled : forall add_auto_styles has_root_svg st evs,
  add_auto_styles = false \/ has_root_svg = false -> auto_styles add_auto_styles has_root_svg st evs = None.
Proof. exact no_injection. Qed.

(* the result does not depend on the iteration order of the two hash sets (C06) *)
Theorem theme_order_independent : forall st els els' cls cls',
  Permutation cls cls' -> Permutation els els' -> build st els cls = build st els' cls'.
Proof. exact build_perm. Qed.

(* the reserved vocabulary has no clashes between the text classes and the others *)
Theorem text_vocabulary_disjoint :
  forallb (fun c => negb (mem_str c plain_vocab) && negb (pattern_classb c))%bool text_vocab = true.
Proof. exact text_vocab_disjoint. Qed.

(* the rule emitted for a class really names it: its text contains the selector ".c" *)
Theorem rules_mention_their_class : forall st els cls items,
  build st els cls = Ok items ->
  forall i c, In i items -> is_def i = false -> owner i = Some c -> mentions c (txt i) = true.
Proof. exact rules_mention_class_build. Qed.
(* no class name occurs twice in the reserved vocabulary *)
Theorem vocabulary_distinct : NoDup (plain_vocab ++ text_vocab ++ map fst pattern_table).
Proof. exact vocabulary_nodup. Qed.

(* every class name of the pinned specification (svgdx 0.19.0: 644 names and the 6 x 101 spaced pattern
   classes) is still reserved by the regenerated tables: a renamed or dropped class breaks this *)
Theorem pinned_vocabulary_reserved : forallb reservedb pinned_vocab = true /\ forallb reservedb pinned_spaced = true.
Proof. exact pinned_reserved. Qed.

(* non-trivial instances *)
Definition ex_settings : settings := mkSettings "dark" "default" (of_Z 3) "sans-serif" None.
Example ex_build :
  match build ex_settings ["rect"; "text"] ["d-grid-10"; "d-arrow"; "d-grid-5"; "d-text-bold"; "d-fill-red"; "d-softshadow"] with
  | Ok items => sowners items = ["d-fill-red"; "d-fill-red"; "d-text-bold"; "d-arrow"; "d-grid-10"; "d-grid-5"; "d-softshadow"]
                /\ refs_of items = ["d-arrow"; "grid-10"; "grid-5"; "d-softshadow"]
                /\ ids_of items = ["d-arrow"; "grid-10"; "grid-5"; "d-softshadow"]
  | _ => False
  end.
Proof. vm_compute. repeat split. Qed.
Example ex_settings_clean : settings_cleanb ex_settings = true /\
  settings_cleanb (mkSettings "glass" "#fff" (of_Z 12) "Arial, sans" (Some "svgdx-abc")) = true.
Proof. vm_compute. split; reflexivity. Qed.
Example ex_reserved : reservedb "d-text-ol-aliceblue" = true /\ reservedb "d-grid-h-007" = true /\ reservedb "d-hatch-+5" = true
  /\ reservedb "d-grid-101" = false /\ reservedb "d-foo" = false /\ needs_text "d-text-bold" = true /\ needs_text "d-text-red" = false.
Proof. vm_compute. repeat split. Qed.
Example ex_text_gate : (* K50: a text class without a text element gets no rule *)
  match build ex_settings ["rect"] ["d-text-bold"] with Ok items => sowners items = [] | _ => False end.
Proof. vm_compute. reflexivity. Qed.

Print Assumptions rule_iff_class. Print Assumptions rule_iff_class_used.
Print Assumptions url_closure. Print Assumptions url_closure_used.
Print Assumptions no_injection_when_disabled. Print Assumptions theme_order_independent.
Print Assumptions text_vocabulary_disjoint. Print Assumptions rules_mention_their_class.
Print Assumptions vocabulary_distinct. Print Assumptions pinned_vocabulary_reserved.
