(* C14 Expressions: conventional semantics, evaluated exactly once, malformed ones fail.
   (and the evaluator part of C01: a value or an error, never a panic, never out of fuel) *)
From Coq Require Import String Ascii List Bool ZArith QArith Qabs.
From SvgdxModel Require Import Base.Str Base.Res Num.F32 Num.NumOps Num.XOps Model.Pcg Gen.Tables Model.Funcs Model.Expr
  Model.ExprSpec Model.ExprRun Proofs.ExprP Proofs.ExprPrintP Proofs.ExprTopP Proofs.ExprExamplesP.
Import ListNotations.
Local Open Scope nat_scope.

(* ---- eval_print: evaluating the printed form of a tree (parentheses only where the grammar needs them) gives
   the conventional meaning of the tree: precedence, left associativity, unary minus, parentheses, comma lists,
   calls, variables; at the fuel the model states, for every tree within the nesting guard ---- *)
Theorem eval_print :
  forall (N : NumOps) (X : XOps N) (getvar : string -> option string) (elref_val : string -> res (num N)) (vbound : nat),
  ctx_ok X getvar elref_val vbound ->
  forall (rho : string -> option value) (vdepth : string -> nat),
  vars_ok X getvar elref_val nil rho vdepth ->
  forall (a : ast) (st : est X) (v : value) (st' : est X),
  denote X rho a st = Ok (v, st') -> pdepth vdepth a <= max_expr_depth ->
  evaluate X getvar elref_val vbound (pr 0 a) st = Ok (VList (flatten v), st').
Proof. exact @eval_print_expr. Qed.

Theorem eval_print_comma_list :
  forall (N : NumOps) (X : XOps N) (getvar : string -> option string) (elref_val : string -> res (num N)) (vbound : nat),
  ctx_ok X getvar elref_val vbound ->
  forall (rho : string -> option value) (vdepth : string -> nat),
  vars_ok X getvar elref_val nil rho vdepth ->
  forall (l : asts) (st : est X) (vs : list sval) (st' : est X),
  denote_list X rho l st = Ok (vs, st') -> pdepths vdepth l <= max_expr_depth -> l <> ANil ->
  evaluate X getvar elref_val vbound (prs l) st = Ok (VList vs, st').
Proof. exact @eval_print_list. Qed.

(* a variable whose text is itself a printed tree list has the value of those trees (indirection chains) *)
Theorem variable_text_evaluates :
  forall (N : NumOps) (X : XOps N) (getvar : string -> option string) (elref_val : string -> res (num N))
    (cv : list string) (rho : string -> option value) (vdepth : string -> nat) (v s : string) (l : asts) (vs : list sval),
  getvar v = Some s -> tokenize X s = Ok (prs l) -> l <> ANil -> ~ In v cv ->
  vars_ok X getvar elref_val (v :: cv) rho vdepth ->
  (forall st : est X, denote_list X rho l st = Ok (vs, st)) ->
  forall (d : nat) (st : est X) (rest : list token), d + pdepths vdepth l <= max_expr_depth ->
  ev (fun f : nat => run X getvar elref_val f (CLookup v) cv d rest st) (Ok (VList vs, rest, st)).
Proof. exact @lookup_print. Qed.

(* ---- comparison and logical operators yield 0 or 1 ---- *)
Theorem cmp_logic_01 :
  forall (N : NumOps) (X : XOps N) (rho : string -> option value) (a : ast) (st : est X) (v : value) (st' : est X),
  match a with ACmp _ _ _ | ALog _ _ _ => True | _ => False end ->
  denote X rho a st = Ok (v, st') -> v = VNum (nofZ N 0) \/ v = VNum (nofZ N 1).
Proof. exact @cmp_log_01. Qed.

(* ---- the remainder is non-negative and below |b| (exact arithmetic; on binary32 the sum r + |b| is rounded
   and can reach |b|) ---- *)
Theorem rem_nonneg : forall a b : Q, ~ (b == 0)%Q -> (0 <= Qrem_euclid a b)%Q /\ (Qrem_euclid a b < Qabs b)%Q.
Proof. exact Qrem_euclid_range. Qed.

(* ---- exactly once: the evaluator makes exactly as many random calls as the tree contains (no short circuit) ---- *)
Theorem draws_exact :
  forall (N : NumOps) (X : XOps N) (getvar : string -> option string) (elref_val : string -> res (num N)) (vbound : nat),
  ctx_ok X getvar elref_val vbound ->
  forall (rho : string -> option value) (vdepth : string -> nat),
  vars_ok X getvar elref_val nil rho vdepth ->
  forall (a : ast) (st : est X) (v : value) (st' : est X),
  denote X rho a st = Ok (v, st') -> pdepth vdepth a <= max_expr_depth ->
  evaluate X getvar elref_val vbound (pr 0 a) st = Ok (VList (flatten v), st') /\
  calls st' = calls st + count_random a.
Proof. exact @draws_exact_top. Qed.

(* re-evaluating an evaluated value (no '$', no '{{') changes nothing and draws nothing *)
Theorem eval_attr_idempotent_on_inert :
  forall (N : NumOps) (X : XOps N) (getvar : string -> option string) (elref_val : string -> res (num N)) (vbound : nat)
    (value : string) (st : est X),
  exists_char (Ascii.eqb "$") value = false -> find_sub "{{" value = None ->
  eval_attr X getvar elref_val vbound value st = Ok (value, st).
Proof. exact @eval_attr_inert. Qed.

(* ---- malformed expressions fail: whatever evaluate accepts has balanced parentheses, only operator words and
   function names of the generated table as symbols, and only defined variables ---- *)
Theorem malformed_rejected :
  forall (N : NumOps) (X : XOps N) (getvar : string -> option string) (elref_val : string -> res (num N)) (vbound : nat),
  ctx_ok X getvar elref_val vbound ->
  forall (ts : list token) (st : est X),
  ~ wf X getvar nil ts -> exists k : errkind, evaluate X getvar elref_val vbound ts st = Err k.
Proof. exact @not_wf_rejected. Qed.
Theorem unbalanced_parentheses_rejected :
  forall (N : NumOps) (X : XOps N) (getvar : string -> option string) (elref_val : string -> res (num N)) (vbound : nat),
  ctx_ok X getvar elref_val vbound ->
  forall (ts : list token) (st : est X),
  scan 0 ts <> Some 0 -> exists k : errkind, evaluate X getvar elref_val vbound ts st = Err k.
Proof. exact @unbalanced_rejected. Qed.
Theorem unknown_function_is_rejected :
  forall (N : NumOps) (X : XOps N) (getvar : string -> option string) (elref_val : string -> res (num N)) (vbound : nat),
  ctx_ok X getvar elref_val vbound ->
  forall (ts : list token) (st : est X) (s : string),
  In (TSym s) ts -> logical_op s = None -> comparison_op s = None -> (forall fn : func, function_of s <> Ok fn) ->
  exists k : errkind, evaluate X getvar elref_val vbound ts st = Err k.
Proof. exact @unknown_function_rejected. Qed.
Theorem undefined_variable_is_rejected :
  forall (N : NumOps) (X : XOps N) (getvar : string -> option string) (elref_val : string -> res (num N)) (vbound : nat),
  ctx_ok X getvar elref_val vbound ->
  forall (ts : list token) (st : est X) (v : string),
  In (TVar v) ts -> getvar v = None -> exists k : errkind, evaluate X getvar elref_val vbound ts st = Err k.
Proof. exact @undefined_variable_rejected. Qed.
(* wrong arity: over the generated table of the accessor each arm of eval_function applies to its arguments *)
Theorem wrong_arity_rejected :
  forall (N : NumOps) (X : XOps N) (variant : string) (n : nat) (fn : func) (args : value) (st : est X),
  In (variant, n) function_arity -> assoc variant func_of_variant = Some fn ->
  length (flatten args) <> n -> exists k : errkind, eval_function X fn args st = Err k.
Proof. exact @arity_rejected. Qed.
(* circular variables: v mentions w when the text of v contains the token $w; a variable from which a chain of
   mentions leads back to itself makes every expression using it fail *)
Theorem circular_variable_rejected :
  forall (N : NumOps) (X : XOps N) (getvar : string -> option string) (elref_val : string -> res (num N)) (vbound : nat),
  ctx_ok X getvar elref_val vbound ->
  forall (ts : list token) (st : est X) (v : string),
  In (TVar v) ts -> on_cycle X getvar v -> exists k : errkind, evaluate X getvar elref_val vbound ts st = Err k.
Proof. exact @circular_rejected. Qed.
(* the check itself: a variable that is being expanded is refused with CircularRefError *)
Theorem variable_being_expanded_is_refused :
  forall (N : NumOps) (X : XOps N) (getvar : string -> option string) (elref_val : string -> res (num N))
    (f : nat) (v : string) (cv : list string) (d : nat) (ts : list token) (st : est X),
  In v cv -> run X getvar elref_val (S f) (CLookup v) cv d ts st = Err ECircularRef.
Proof. exact @circular_check. Qed.
Theorem self_referential_variable_rejected :
  forall (N : NumOps) (X : XOps N) (getvar : string -> option string) (elref_val : string -> res (num N)) (vbound : nat),
  ctx_ok X getvar elref_val vbound ->
  forall (f : nat) (v s : string) (toks : list token) (cv : list string) (d : nat) (ts : list token) (st : est X)
    (x : value * list token * est X),
  getvar v = Some s -> tokenize X s = Ok toks -> In (TVar v) toks ->
  run X getvar elref_val f (CLookup v) cv d ts st <> Ok x.
Proof. exact @self_reference_rejected. Qed.

(* ---- totality (C01, evaluator part): never a panic - the model has the panic sites of f32::clamp and
   random_range and they are unreachable - and never out of fuel with the stated fuel ---- *)
Theorem expr_no_panic :
  forall (N : NumOps) (X : XOps N) (getvar : string -> option string) (elref_val : string -> res (num N)) (vbound : nat),
  ctx_ok X getvar elref_val vbound ->
  (forall f c cv d ts st s, run X getvar elref_val f c cv d ts st <> Panic s) /\
  (forall ts st s, evaluate X getvar elref_val vbound ts st <> Panic s) /\
  (forall value st s, eval_attr X getvar elref_val vbound value st <> Panic s) /\
  (forall value st s, eval_condition X getvar elref_val vbound value st <> Panic s) /\
  (forall value st s, eval_list X getvar elref_val vbound value st <> Panic s).
Proof. exact @no_panic_all. Qed.
Theorem expr_depth_guard :
  forall (N : NumOps) (X : XOps N) (getvar : string -> option string) (elref_val : string -> res (num N)) (vbound : nat),
  ctx_ok X getvar elref_val vbound ->
  (forall f cv d ts st, max_expr_depth <= d -> run X getvar elref_val (S f) CPrimary cv d ts st = Err EParse) /\
  (forall f c cv d ts st, bound vbound c d ts <= f -> run X getvar elref_val f c cv d ts st <> OutOfFuel) /\
  (forall ts st, evaluate X getvar elref_val vbound ts st <> OutOfFuel) /\
  (forall value st, eval_attr X getvar elref_val vbound value st <> OutOfFuel) /\
  (forall value st, eval_condition X getvar elref_val vbound value st <> OutOfFuel) /\
  (forall value st, eval_list X getvar elref_val vbound value st <> OutOfFuel).
Proof. exact @fuel_all. Qed.
Theorem eval_attr_total :
  forall (N : NumOps) (X : XOps N) (getvar : string -> option string) (elref_val : string -> res (num N)) (vbound : nat),
  ctx_ok X getvar elref_val vbound ->
  forall (value : string) (st : est X),
  (exists r, eval_attr X getvar elref_val vbound value st = Ok r) \/
  (exists k, eval_attr X getvar elref_val vbound value st = Err k).
Proof. exact @eval_attr_value_or_error. Qed.
(* the executed instance (binary32, the context of the verif hooks) satisfies the hypotheses *)
Theorem hook_context_ok : forall vars : list (string * string),
  ctx_ok F32X (hook_getvar vars) hook_elref (hook_vbound vars).
Proof. exact hook_ctx_ok. Qed.

(* ---- the hypotheses are satisfiable: a concrete context on exact rationals with an indirection chain
   (a = "3", b = "$a * 2"), the tree of  ($b + 1) * 2 lt 20 and not(0)  whose printed form is the tokenized text,
   evaluated through the theorem; malformed inputs of each class; the nesting guard at its boundary ---- *)
Example context_instance : ctx_ok QX ex_getvar ex_elref ex_vbound.
Proof. exact ex_ctx. Qed.
Example variables_instance : vars_ok QX ex_getvar ex_elref nil rho_ab ex_vd.
Proof. exact vars_ok_ab. Qed.
Example printed_tree_is_the_text : tokenize QX ex_text = Ok (pr 0 ex_tree).
Proof. exact ex_print_is_text. Qed.
Example eval_print_instance : evaluate QX ex_getvar ex_elref ex_vbound (pr 0 ex_tree) ex_st = Ok (@VList QOps [@SNum QOps (1 # 1)%Q], ex_st).
Proof. exact ex_eval_print. Qed.
Example eval_attr_instance :
  show (fun s => s) (eval_attr QX ex_getvar ex_elref ex_vbound ("v={{$b + 1}} {{" ++ ex_text ++ "}}") ex_st) = "OK v=7 1"%string.
Proof. exact ex_eval_attr. Qed.
Example unbalanced_instance : exists k, evaluate QX ex_getvar ex_elref ex_vbound [@TOpen QOps; @TNum QOps (1 # 1)%Q; TAdd; @TNum QOps (2 # 1)%Q] ex_st = Err k.
Proof. exact ex_unbalanced. Qed.
Example unknown_function_instance : exists k, evaluate QX ex_getvar ex_elref ex_vbound [@TSym QOps "sine"; TOpen; @TNum QOps (1 # 1)%Q; TClose] ex_st = Err k.
Proof. exact ex_unknown_function. Qed.
Example undefined_variable_instance : exists k, evaluate QX ex_getvar ex_elref ex_vbound [@TNum QOps (1 # 1)%Q; TAdd; TVar "zz"] ex_st = Err k.
Proof. exact ex_undefined_variable. Qed.
Example wrong_arity_instance : exists k, eval_function QX FClamp (@VList QOps [@SNum QOps (1 # 1)%Q; @SNum QOps (2 # 1)%Q]) ex_st = Err k.
Proof. exact ex_wrong_arity. Qed.
Example cycle_instance : on_cycle QX ex_getvar "c1".
Proof. exact ex_on_cycle. Qed.
Example cycle_rejected_instance : exists k, evaluate QX ex_getvar ex_elref ex_vbound [@TNum QOps (2 # 1)%Q; TAdd; TVar "c1"] ex_st = Err k.
Proof. exact ex_cycle_rejected. Qed.
Example two_cycle_instance : show (fun s => s) (eval_attr QX ex_getvar ex_elref ex_vbound "{{$c1}}" ex_st) = "ERR CircularRefError"%string.
Proof. exact ex_two_cycle. Qed.
Example depth_below_guard_evaluates : show show_value (evaluate QX ex_getvar ex_elref ex_vbound (nested (max_expr_depth - 1)) ex_st) = "OK 1"%string.
Proof. exact ex_depth_ok. Qed.
Example depth_at_guard_refused : show show_value (evaluate QX ex_getvar ex_elref ex_vbound (nested max_expr_depth) ex_st) = "ERR ParseError"%string.
Proof. exact ex_depth_refused. Qed.

Print Assumptions eval_print. Print Assumptions eval_print_comma_list. Print Assumptions variable_text_evaluates.
Print Assumptions eval_attr_idempotent_on_inert. Print Assumptions cmp_logic_01. Print Assumptions rem_nonneg. Print Assumptions draws_exact.
Print Assumptions malformed_rejected. Print Assumptions unbalanced_parentheses_rejected.
Print Assumptions unknown_function_is_rejected. Print Assumptions undefined_variable_is_rejected.
Print Assumptions wrong_arity_rejected. Print Assumptions circular_variable_rejected. Print Assumptions variable_being_expanded_is_refused.
Print Assumptions self_referential_variable_rejected. Print Assumptions expr_no_panic.
Print Assumptions expr_depth_guard. Print Assumptions eval_attr_total. Print Assumptions hook_context_ok.
