(* C03 Real SVG (namespaced root) passes through with an identical XML infoset.
   Model: Model/Xml.v (reader on well-formed input, conversion to output events, writer). *)
From Coq Require Import String Ascii List Bool.
From SvgdxModel Require Import Base.Str Base.Res Num.F32 Gen.Tables Model.Types Model.Xml Model.Pipeline Model.Svgdx Proofs.SvgdxP
  Proofs.TypesP Proofs.XmlP Proofs.XmlConvP.
Import ListNotations.
Open Scope string_scope.

(* attribute values survive unescape-on-read / escape-on-write, for every string *)
Theorem attr_value_round_trip : forall v, unesc (escape5 v) = Some v.
Proof. exact unesc_escape5. Qed.

(* the pass-through output is lexically well formed and reads back as exactly the converted events:
   nothing is lost or invented by the writer, for documents of any length *)
Theorem passthrough_reads_back : forall ts, Forall oev_ok (map conv ts) ->
  read_xml (write_to (map conv ts)) = Some (coalesce (map conv ts) "").
Proof. intros ts H. exact (write_to_reads_back _ H). Qed.

(* a well-formed input tag becomes a well-formed output tag (unique attribute names, class written once) *)
Theorem passthrough_tag_well_formed : forall n a, tok_wf (TStart n a) ->
  tok_wf (tok_of (conv (TStart n a))) /\ tok_wf (tok_of (conv (TEmpty n a))).
Proof. exact conv_tag_ok. Qed.

(* infoset, attributes: every attribute other than class keeps exactly its (unescaped) value;
   class is rebuilt from the ordered set of its space separated tokens (known finding K5) *)
Theorem passthrough_attr_value_preserved : forall n a k, tok_wf (TStart n a) -> k <> "class" ->
  get (out_attrs (el_attrs a) (el_classes a)) k = assoc k a.
Proof. exact passthrough_attr_preserved. Qed.

(* infoset, everything else: comments, CDATA, processing instructions, doctype, end tags and tags the
   element constructor rejects are written back exactly as read; character data is coalesced and only
   loses white space before a line end (known finding K6) *)
Theorem passthrough_other_items_verbatim : forall t,
  match t with TText _ | TStart _ _ | TEmpty _ _ => False | _ => True end -> tok_of (conv t) = t.
Proof. exact passthrough_other_verbatim. Qed.

(* the composed model of the whole transform (Model/Svgdx.v, the one compared byte for byte with transform_str) treats a real SVG
   document exactly as the pass-through above, under every configuration, seed, border and scale *)
Theorem whole_transform_passes_real_svg_through : forall cfg seed border scale input toks,
  read_xml input = Some toks -> nesting_ok toks [] = true -> is_real_svg toks = true ->
  transform_doc cfg seed border scale input = Ok (write_to (map conv toks)).
Proof. exact real_svg_is_passthrough. Qed.

(* non-vacuity: a concrete document with references, quotes, a comment, CDATA and a PI *)
Definition doc1 : string :=
  "<svg xmlns='http://www.w3.org/2000/svg' b = ""x&amp;y&#33;"" class=""k k""><!--c--><t a='&lt;'>u &amp; v</t><![CDATA[<z>]]><?pi x?></svg>".
Example passthrough_example :
  passthrough_doc doc1 = Some (Some
  "<svg xmlns=""http://www.w3.org/2000/svg"" b=""x&amp;y!"" class=""k""><!--c--><t a=""&lt;"">u &amp; v</t><![CDATA[<z>]]><?pi x?></svg>").
Proof. vm_compute. reflexivity. Qed.

Print Assumptions attr_value_round_trip. Print Assumptions passthrough_reads_back.
Print Assumptions passthrough_tag_well_formed. Print Assumptions passthrough_attr_value_preserved.
Print Assumptions passthrough_other_items_verbatim. Print Assumptions whole_transform_passes_real_svg_through.
