(* C01 Totality: every input gives a result or an error, never a crash or a hang.
   What is proved here, for every input of the modelled functions (no bound on length or nesting):
   the scanners that loop "until the input is used up" use it up (progress), the reference walks that
   loop "until a non-reference is reached" end (each step records a new element of a finite map), and the
   model's Panic site (text.rs expect) is unreachable from its call site. [settled r] says that [r] is a
   value or an error value: not a panic site and not exhausted fuel. The fuel the model gives each loop
   (S (length d) for a path, |map| + 2 for the reference walks) is therefore never the reason for stopping:
   the Rust loops, which have no counter, terminate within that many iterations.
   What is not proved: see DESIGN.md (whole-pipeline fuel adequacy, quick-xml, the real stack). *)
From Coq Require Import String Ascii List Bool ZArith.
From SvgdxModel Require Import Base.Str Base.Res Num.F32 Num.F64 Num.NumOps Gen.Tables Model.Types Model.Geom
  Model.Position Model.Scan Model.Element Model.Text Model.Xml Model.Pipeline Model.Run Proofs.TotalP Proofs.PipelineP.
Import ListNotations.
Open Scope string_scope.

(* binary32 instance: the empty string is not a number *)
Lemma strp_f32_empty : F32.strp "" = None.
Proof. vm_compute. reflexivity. Qed.

(* path.rs process_instruction consumes input on every successful step; the closepath case, which reads
   no operand, relies on the command letter just consumed, and clears the command so that the next step
   must begin with one (the repair of the "M0 0 z 5" hang) *)
Theorem path_scanner_progress : forall N strp, strp "" = None -> forall st s st' s',
  not_closing (ps_cmd N st) -> path_step N strp st s = Ok (st', s') ->
  (String.length s' < String.length s)%nat /\ not_closing (ps_cmd N st').
Proof. exact path_step_progress. Qed.

Theorem path_scanner_total : forall N strp, strp "" = None -> forall d, settled (path_bbox N strp d).
Proof. exact path_bbox_total. Qed.
Theorem path_scanner_total_f32 : forall d, settled (path_bbox FN F32.strp d).
Proof. exact (path_bbox_total FN F32.strp strp_f32_empty). Qed.

(* points and transform lists: structural recursion, settled results *)
Theorem points_scanner_total : forall N strp s, settled (points_bbox N strp s).
Proof. exact points_bbox_settled. Qed.
Theorem transform_scanner_total : forall N strp v, settled (parse_transform N strp v).
Proof. exact parse_transform_settled. Qed.

(* element.rs get_target_element: the use / reuse walk ends, for every element map (cyclic ones included) *)
Theorem target_walk_total : forall N c e, settled (get_target_element N c e).
Proof. exact get_target_element_total. Qed.

(* context.rs get_element_bbox: the clip-path walk ends, for every element map (cyclic ones included);
   false before fix b020f94, where a clip-path chain leading back to itself recursed without bound *)
Theorem bbox_walk_total : forall N strp, strp "" = None -> forall c e, settled (get_element_bbox N strp c e).
Proof. exact get_element_bbox_total. Qed.
Theorem bbox_walk_total_f32 : forall c e, settled (get_element_bbox FN F32.strp c e).
Proof. exact (get_element_bbox_total FN F32.strp strp_f32_empty). Qed.

(* text.rs process_text_attr: the expect() is unreachable when the caller has tested for the attribute *)
Theorem text_attr_no_panic : forall N strp fstr, strp "" = None -> forall e,
  ehas N e "text" = true -> settled (process_text_attr N strp fstr e).
Proof. exact process_text_attr_settled. Qed.

(* transform.rs process_tags: a pass returns a sub-sequence of what it was given, so the retry loop needs at
   most as many passes as there are pending elements (the pass budget is never what runs out) *)
Theorem retry_pending_shrinks : forall N ES eva evc evl leaf el_bbox_of instantiate kidtab clip text_unescape fuel pending c pr c',
  pass N ES eva evc evl leaf el_bbox_of instantiate kidtab clip text_unescape fuel pending c = (pr, c') -> subseq (pr_rem N pr) pending.
Proof. exact pass_remaining. Qed.
Theorem retry_terminates_within_budget : forall N ES eva evc evl leaf el_bbox_of instantiate kidtab clip text_unescape
    fuel passes pending out bb c r c',
  (List.length pending <= passes)%nat ->
  retry N ES eva evc evl leaf el_bbox_of instantiate kidtab clip text_unescape (S fuel) passes pending out bb c = (r, c') ->
  r = OutOfFuel ->
  fuel = 0%nat \/ exists p2 pend2 out2 bb2 c2, (List.length pend2 <= p2)%nat /\ (List.length pend2 < List.length pending)%nat /\
    retry N ES eva evc evl leaf el_bbox_of instantiate kidtab clip text_unescape fuel p2 pend2 out2 bb2 c2 = (r, c').
Proof. exact retry_pass_budget. Qed.

(* recursion through elements is cut at the depth limit, whatever the element is *)
Theorem recursion_cut_at_depth_limit : forall N ES eva evc evl leaf el_bbox_of instantiate kidtab clip text_unescape f e kids c,
  (limit_of N ES c < px_depth N ES c + 1)%Z ->
  fst (gen N ES eva evc evl leaf el_bbox_of instantiate kidtab clip text_unescape (S f) e kids c) = Err EDepthLimit.
Proof. exact gen_depth_exceeded. Qed.

(* non-vacuity: a cyclic clip-path map and a cyclic use map are settled with an error, a closepath followed by
   a number is an error, and a well-formed path has a bounding box *)
(* stated through [err_of] so that the normalised goal does not carry the number instance in its type *)
Definition err_of {A} (r : res A) : option errkind := match r with Err k => Some k | _ => None end.
Definition mk (name id : string) (a : attrs) (i : Z) : string * el FN :=
  (id, {| ename := name; eattrs := a; ecls := []; ecbb := None; eidx := i; etext := None; eindent := 0%nat;
          eline := 0%nat; eempty := true; eorig := "" |}).
Definition cyc : emap FN :=
  {| cmap := [mk "rect" "c" [("clip-path", "url(#d)"); ("width", "1"); ("height", "1")] 1;
              mk "rect" "d" [("clip-path", "url(#c)"); ("width", "2"); ("height", "2")] 2;
              mk "use" "u" [("href", "#v")] 3; mk "use" "v" [("href", "#u")] 4]; cprev := None |}.
Example cyclic_clip_is_an_error :
  err_of (get_element_bbox FN F32.strp cyc (snd (mk "rect" "a" [("clip-path", "url(#d)"); ("width", "5"); ("height", "5")] 9))) = Some ECircularRef.
Proof. vm_compute. reflexivity. Qed.
Example cyclic_use_is_an_error : err_of (get_target_element FN cyc (snd (mk "use" "w" [("href", "#u")] 9))) = Some ECircularRef.
Proof. vm_compute. reflexivity. Qed.
Example closepath_then_number_is_an_error : err_of (path_bbox FN F32.strp "M0 0 z 5") = Some EInvalidData.
Proof. vm_compute. reflexivity. Qed.
Example path_has_bbox : is_ok (path_bbox FN F32.strp "M0 0 L3 4 z m1 1 h2") = true.
Proof. vm_compute. reflexivity. Qed.

Print Assumptions path_scanner_progress.
Print Assumptions path_scanner_total.
Print Assumptions path_scanner_total_f32.
Print Assumptions points_scanner_total.
Print Assumptions transform_scanner_total.
Print Assumptions target_walk_total.
Print Assumptions bbox_walk_total.
Print Assumptions bbox_walk_total_f32.
Print Assumptions text_attr_no_panic.
Print Assumptions retry_pending_shrinks.
Print Assumptions retry_terminates_within_budget.
Print Assumptions recursion_cut_at_depth_limit.
