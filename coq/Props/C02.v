(* C02 Successful output is always well-formed XML with a proper SVG root (lexical level of the writer). *)
From Coq Require Import String Ascii List Bool.
From SvgdxModel Require Import Base.Str Base.Res Gen.Tables Model.Types Model.Xml
  Proofs.TypesP Proofs.XmlP Proofs.XmlConvP.
Import ListNotations.
Open Scope string_scope.

(* special characters in attribute values are escaped: for EVERY value the written form contains no
   angle bracket and no quote, and unescaping it gives the value back *)
Theorem unescape_escape : forall s, unesc (escape5 s) = Some s.
Proof. exact unesc_escape5. Qed.
Theorem escaped_is_clean : forall s, forall_char quote_free (escape5 s) = true.
Proof. exact escape5_clean. Qed.

(* a start tag with arbitrary attribute values, written by the serialiser, is read back as the same
   name and the same (unescaped) attribute values, whatever follows it *)
Theorem start_tag_reads_back : forall n a rest,
  name_ok n = true -> start_char_ok n = true -> attrs_ok a -> nodup_keys a = true ->
  read_markup (n ++ render_attrs a ++ ">" ++ rest) = Some (TStart n a, rest).
Proof. exact read_markup_start. Qed.
Theorem empty_tag_reads_back : forall n a rest,
  name_ok n = true -> start_char_ok n = true -> attrs_ok a -> nodup_keys a = true ->
  read_markup (n ++ render_attrs a ++ "/>" ++ rest) = Some (TEmpty n a, rest).
Proof. exact read_markup_empty. Qed.

(* the writer (text coalescing, blank_line_remover, comments, CDATA, tags) produces a document that the
   reader tokenises back into exactly the events written: comments and CDATA correctly delimited, text
   free of markup, for event lists of any length *)
Theorem write_wf : forall es, Forall oev_ok es -> read_xml (write_to es) = Some (coalesce es "").
Proof. exact write_to_reads_back. Qed.

(* no element carries the same attribute twice: the attribute map keeps its keys unique under every
   sequence of operations, and class is kept apart from it *)
Theorem attrmap_keys_nodup : forall ops a, NoDup (keys a) -> NoDup (keys (fold_left apply_op ops a)).
Proof. exact attrmap_keys_nodup_from. Qed.
Theorem element_attrs_unique : forall n a, tok_wf (TStart n a) ->
  tok_wf (tok_of (conv (TStart n a))) /\ tok_wf (tok_of (conv (TEmpty n a))).
Proof. exact conv_tag_ok. Qed.

Example write_example :
  read_xml (write_to [OStart "svg" [("a", "<&"">'")] ["c"; "d"]; OText "x  "; OText (String nl "y"); OComment " k ";
                      OCData "<raw>"; OEmpty "r" [] []; OEnd "svg"])
  = Some [TStart "svg" [("a", "<&"">'"); ("class", "c d")]; TText (String "x" (String nl "y")); TComment " k ";
          TCData "<raw>"; TEmpty "r" []; TEnd "svg"].
Proof. vm_compute. reflexivity. Qed.

Print Assumptions unescape_escape. Print Assumptions escaped_is_clean. Print Assumptions start_tag_reads_back.
Print Assumptions empty_tag_reads_back. Print Assumptions write_wf. Print Assumptions attrmap_keys_nodup.
Print Assumptions element_attrs_unique.
