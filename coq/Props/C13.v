(* C13 Connectors start and end on the referenced elements (exact arithmetic).
   [link] is the endpoint selection of Connector::from_element after parsing (from_element_uses_link),
   [render_points] the geometry of Connector::render, [transmute_conn] the connector part of transmute.
   [big] is the initial value of the minimum searches (f32::MAX in the code): the minimality theorems
   assume that some candidate distance is below it (no overflow). *)
From Coq Require Import QArith String List Bool.
From SvgdxModel Require Import Base.Str Base.Res Num.NumOps Gen.Tables Model.Types Model.Geom Model.Position
  Model.Element Model.Connector Proofs.TypesP Proofs.RelPosP Proofs.ContainP Proofs.ConnectorP.
Import ListNotations.

(* candidate locations (generated table): edge mid-points, plus corners for straight lines only *)
Theorem candidates_edge_midpoints_plus_corners : forall ct (l : locspec QOps),
  In l (edge_locations QOps ct) ->
  exists n, l = LNamed n /\ (is_edge_mid n = true \/ (ct = Straight /\ is_box_corner n = true)).
Proof. exact candidates_are_edge_mids_or_corners. Qed.

(* a named location is used as given (start and end side), with the direction of its edge *)
Theorem endpoint_on_named_loc : forall strp big c ct s e s' e',
  link QOps strp big c ct s e = Ok (s', e') ->
  (forall el_ l bb, s = ERef (Some el_) (Some l) -> get_element_bbox QOps strp c el_ = Ok (Some bb) ->
     eo s' = bb_locspec QOps bb l /\ edir s' = loc_to_dir QOps l) /\
  (forall el_ l bb, e = ERef (Some el_) (Some l) -> get_element_bbox QOps strp c el_ = Ok (Some bb) ->
     eo e' = bb_locspec QOps bb l /\ edir e' = loc_to_dir QOps l).
Proof. exact named_loc_final. Qed.

(* literal coordinates are used verbatim *)
Theorem literal_point_verbatim : forall strp big c ct s e s' e',
  link QOps strp big c ct s e = Ok (s', e') ->
  (forall p, s = EPoint p -> eo s' = p /\ edir s' = None) /\
  (forall p, e = EPoint p -> eo e' = p /\ edir e' = None).
Proof. exact literal_final. Qed.
Theorem literal_point_parsed : forall strp c s a b rest x y,
  starts_ref s = false -> attr_split s = a :: b :: rest -> strp a = Some x -> strp b = Some y ->
  parse_endpoint QOps strp c s = Ok (@EPoint QOps (x, y)).
Proof. exact parse_endpoint_literal. Qed.

(* no location on either side: a pair of candidates of least squared distance, over all boxes *)
Theorem endpoint_minimal : forall strp big c ct sel eel sb eb s' e',
  get_element_bbox QOps strp c sel = Ok (Some sb) -> get_element_bbox QOps strp c eel = Ok (Some eb) ->
  link QOps strp big c ct (ERef (Some sel) None) (ERef (Some eel) None) = Ok (s', e') ->
  (exists l1 l2, In l1 (edge_locations QOps ct) /\ In l2 (edge_locations QOps ct) /\
     dist_sq QOps (bb_locspec QOps sb l1) (bb_locspec QOps eb l2) < big) ->
  exists l1 l2, In l1 (edge_locations QOps ct) /\ In l2 (edge_locations QOps ct) /\
    eo s' = bb_locspec QOps sb l1 /\ eo e' = bb_locspec QOps eb l2 /\
    edir s' = loc_to_dir QOps l1 /\ edir e' = loc_to_dir QOps l2 /\
    forall c1 c2, In c1 (edge_locations QOps ct) -> In c2 (edge_locations QOps ct) ->
      dist_sq QOps (eo s') (eo e') <= dist_sq QOps (bb_locspec QOps sb c1) (bb_locspec QOps eb c2).
Proof. exact link_auto_both. Qed.
(* a location on one side only: the free side is a candidate of least squared distance to the fixed point *)
Theorem endpoint_minimal_start : forall strp big c ct sel sb e s' e' p,
  get_element_bbox QOps strp c sel = Ok (Some sb) -> fixed_at strp c e p ->
  link QOps strp big c ct (ERef (Some sel) None) e = Ok (s', e') ->
  (exists l, In l (edge_locations QOps ct) /\ dist_sq QOps (bb_locspec QOps sb l) p < big) ->
  exists l1, In l1 (edge_locations QOps ct) /\ eo s' = bb_locspec QOps sb l1 /\ edir s' = loc_to_dir QOps l1 /\
    eo e' = p /\
    forall c1, In c1 (edge_locations QOps ct) -> dist_sq QOps (eo s') p <= dist_sq QOps (bb_locspec QOps sb c1) p.
Proof. exact link_auto_start. Qed.
Theorem endpoint_minimal_end : forall strp big c ct eel eb s s' e' p,
  get_element_bbox QOps strp c eel = Ok (Some eb) -> fixed_at strp c s p ->
  link QOps strp big c ct s (ERef (Some eel) None) = Ok (s', e') ->
  (exists l, In l (edge_locations QOps ct) /\ dist_sq QOps (bb_locspec QOps eb l) p < big) ->
  exists l2, In l2 (edge_locations QOps ct) /\ eo e' = bb_locspec QOps eb l2 /\ edir e' = loc_to_dir QOps l2 /\
    eo s' = p /\
    forall c2, In c2 (edge_locations QOps ct) -> dist_sq QOps (eo e') p <= dist_sq QOps (bb_locspec QOps eb c2) p.
Proof. exact link_auto_end. Qed.

(* tie-breaking of the two searches: the first candidate (pair) in table order that attains the minimum *)
Theorem endpoint_first_minimum : forall big (bb : QB) (pt : Q * Q) ct,
  (exists l, In l (edge_locations QOps ct) /\ dist_sq QOps (bb_locspec QOps bb l) pt < big) ->
  let r := closest_loc_bb QOps big bb pt ct in
  exists l1 l2, edge_locations QOps ct = (l1 ++ r :: l2)%list /\
    (forall y, In y l1 -> dist_sq QOps (bb_locspec QOps bb r) pt < dist_sq QOps (bb_locspec QOps bb y) pt) /\
    (forall y, In y l2 -> dist_sq QOps (bb_locspec QOps bb r) pt <= dist_sq QOps (bb_locspec QOps bb y) pt).
Proof. exact closest_loc_first. Qed.
Theorem endpoint_pair_first_minimum : forall big (b1 b2 : QB) ct,
  (exists l1 l2, In l1 (edge_locations QOps ct) /\ In l2 (edge_locations QOps ct) /\
                 dist_sq QOps (bb_locspec QOps b1 l1) (bb_locspec QOps b2 l2) < big) ->
  let r := shortest_link_bb QOps big b1 b2 ct in
  let d := fun p : locspec QOps * locspec QOps => dist_sq QOps (bb_locspec QOps b1 (fst p)) (bb_locspec QOps b2 (snd p)) in
  exists p1 p2, list_prod (edge_locations QOps ct) (edge_locations QOps ct) = (p1 ++ r :: p2)%list /\
    (forall y, In y p1 -> d r < d y) /\ (forall y, In y p2 -> d r <= d y).
Proof. exact shortest_link_first. Qed.

(* directions (generated table): edge mid-points and edge offsets point away from their edge; corners
   and the centre have no direction *)
Theorem direction_of_named_location : forall n, loc_to_dir QOps (LNamed n) = dir_of_locname n.
Proof. exact loc_to_dir_named. Qed.
Theorem direction_of_edge_offset : forall e len, loc_to_dir QOps (LEdge e len) = Some (dir_of_edge e).
Proof. exact loc_to_dir_edge. Qed.

Theorem from_element_uses_link : forall strp big c e ct k,
  from_element QOps strp big c e ct = Ok k ->
  exists sref eref s en,
    eget QOps e "start" = Some sref /\ eget QOps e "end" = Some eref /\
    parse_endpoint QOps strp c sref = Ok s /\ parse_endpoint QOps strp c eref = Ok en /\
    link QOps strp big c ct s en = Ok (cstart k, cend k) /\
    cstart_el k = spec_el QOps s /\ cend_el k = spec_el QOps en /\ ctype k = ct /\
    csrc k = eremove QOps e connector_popped.
Proof. exact from_element_link. Qed.

(* straight lines join the two endpoints *)
Theorem straight_joins_endpoints : forall strp c (k : connector QOps) pts,
  ctype k = Straight -> render_points QOps strp c k = Ok pts -> pts = [eo (cstart k); eo (cend k)].
Proof. exact render_straight. Qed.

(* h / v edge types: an axis-parallel line keeping the along-axis coordinates of the two endpoints; with
   two elements it runs through (max of the lower bounds + min of the upper bounds) / 2, which is the
   middle of the overlap and inside both boxes whenever the two ranges overlap; otherwise at the start
   point's coordinate *)
Theorem hv_axis_parallel_mid_overlap_h : forall strp c (k : connector QOps) pts,
  ctype k = Horizontal -> render_points QOps strp c k = Ok pts ->
  exists m, pts = [(fst (eo (cstart k)), m); (fst (eo (cend k)), m)] /\
    (forall se ee sb eb, cstart_el k = Some se -> cend_el k = Some ee ->
       get_element_bbox QOps strp c se = Ok (Some sb) -> get_element_bbox QOps strp c ee = Ok (Some eb) ->
       let lo := Qmax' (by1 sb) (by1 eb) in let hi := Qmin' (by2 sb) (by2 eb) in
       m == (lo + hi) / 2 /\
       (lo <= hi -> by1 sb <= m /\ m <= by2 sb /\ by1 eb <= m /\ m <= by2 eb)) /\
    ((cstart_el k = None \/ cend_el k = None) -> m = snd (eo (cstart k))).
Proof. exact hv_horizontal_final. Qed.
Theorem hv_axis_parallel_mid_overlap_v : forall strp c (k : connector QOps) pts,
  ctype k = Vertical -> render_points QOps strp c k = Ok pts ->
  exists m, pts = [(m, snd (eo (cstart k))); (m, snd (eo (cend k)))] /\
    (forall se ee sb eb, cstart_el k = Some se -> cend_el k = Some ee ->
       get_element_bbox QOps strp c se = Ok (Some sb) -> get_element_bbox QOps strp c ee = Ok (Some eb) ->
       let lo := Qmax' (bx1 sb) (bx1 eb) in let hi := Qmin' (bx2 sb) (bx2 eb) in
       m == (lo + hi) / 2 /\
       (lo <= hi -> bx1 sb <= m /\ m <= bx2 sb /\ bx1 eb <= m /\ m <= bx2 eb)) /\
    ((cstart_el k = None \/ cend_el k = None) -> m = fst (eo (cstart k))).
Proof. exact hv_vertical_final. Qed.

(* corner routing, all 16 direction pairs of the generated table, all offsets, all endpoints: 3 or 4
   points from the start point to the end point, consecutive points share x or y, the first segment runs
   along the start direction and the last along the end direction (perpendicular to the chosen edges) *)
Theorem corner_segments_axis_parallel : forall strp c (k : connector QOps) pts sd ed,
  ctype k = Corner -> edir (cstart k) = Some sd -> edir (cend k) = Some ed ->
  render_points QOps strp c k = Ok pts ->
  rectilinear pts /\ hd_error pts = Some (eo (cstart k)) /\ hd_error (rev pts) = Some (eo (cend k)) /\
  (3 <= List.length pts <= 4)%nat.
Proof. exact corner_axis_parallel_final. Qed.
Theorem corner_leaves_perpendicular : forall strp c (k : connector QOps) pts sd ed,
  ctype k = Corner -> edir (cstart k) = Some sd -> edir (cend k) = Some ed ->
  render_points QOps strp c k = Ok pts -> leaves_perp sd pts /\ enters_perp ed pts.
Proof. exact corner_perpendicular_final. Qed.
Theorem corner_without_direction_is_straight : forall strp c (k : connector QOps) pts,
  ctype k = Corner -> (edir (cstart k) = None \/ edir (cend k) = None) ->
  render_points QOps strp c k = Ok pts -> pts = [eo (cstart k); eo (cend k)].
Proof. exact render_corner_nodir. Qed.
Theorem corner_rejected_only_for_u_with_percent : forall strp c (k : connector QOps) sd ed,
  ctype k = Corner -> edir (cstart k) = Some sd -> edir (cend k) = Some ed ->
  is_ok (render_points QOps strp c k) = true \/ (sd = ed /\ exists r, coffset k = Some (Ratio r)).
Proof. exact corner_rejects_only_ratio_u. Qed.

(* default offsets (generated constants): without corner-offset a Z route bends midway between the two
   endpoints and a U route passes 3 units beyond the outermost endpoint on the side the edges face *)
Theorem corner_default_offsets : forall sd ed p x1 y1 x2 y2 m,
  corner_plan sd ed = Some p -> plan_mid QOps p None x1 y1 x2 y2 = Ok m ->
  match sd, ed with
  | DLeft, DRight | DRight, DLeft => m == (x1 + x2) / 2
  | DUp, DDown | DDown, DUp => m == (y1 + y2) / 2
  | DLeft, DLeft => m == Qmin' x1 x2 - 3
  | DRight, DRight => m == Qmax' x1 x2 + 3
  | DUp, DUp => m == Qmin' y1 y2 - 3
  | DDown, DDown => m == Qmax' y1 y2 + 3
  | _, _ => True
  end.
Proof. exact corner_default_mid. Qed.

(* start, end, edge-type and corner-offset never appear on the replacement element (any number instance) *)
Theorem connector_attrs_removed : forall (N : NumOps) strp fstr big c (e e' : el N) k,
  is_connector N e = true -> transmute_conn N strp fstr big c e = Ok e' ->
  NoDup (keys (eattrs N e)) -> In k ["start"; "end"; "edge-type"; "corner-offset"]%string -> eget N e' k = None.
Proof. exact transmute_conn_removes. Qed.

(* ---- the hypotheses are satisfiable: two 10 x 10 boxes at (0,0) and (30,40) ---- *)
Definition ex_strp (s : string) : option Q :=
  (if String.eqb s "0" then Some 0 else if String.eqb s "10" then Some 10
   else if String.eqb s "30" then Some 30 else if String.eqb s "40" then Some 40 else None)%string.
Definition ex_rect (x y : string) : el QOps :=
  new_el QOps "rect" [("x", x); ("y", y); ("width", "10"); ("height", "10")]%string.
Definition ex_map : emap QOps := {| cmap := [("a", ex_rect "0" "0"); ("b", ex_rect "30" "40")]%string; cprev := None |}.
Example ex_bboxes :
  get_element_bbox QOps ex_strp ex_map (ex_rect "0" "0") = Ok (Some (qbb 0 0 10 10)) /\
  get_element_bbox QOps ex_strp ex_map (ex_rect "30" "40") = Ok (Some (qbb 30 40 40 50)).
Proof. split; vm_compute; reflexivity. Qed.
Example ex_minimal_hypothesis :
  In (LNamed BottomRight) (edge_locations QOps Straight) /\ In (LNamed TopLeft) (edge_locations QOps Straight) /\
  dist_sq QOps (bb_locspec QOps (qbb 0 0 10 10) (LNamed BottomRight)) (bb_locspec QOps (qbb 30 40 40 50) (LNamed TopLeft)) < 1000000.
Proof.
  split; [unfold edge_locations; apply in_map; vm_compute; tauto|].
  split; [unfold edge_locations; apply in_map; vm_compute; tauto|]. vm_compute. reflexivity.
Qed.
Definition qep (x y : Q) (d : option direction) : endpoint QOps := Build_endpoint QOps (x, y) d.
(* straight: bottom-right corner to top-left corner; corner: bottom edge to top edge with a Z route *)
Example ex_straight :
  exists s' e', link QOps ex_strp 1000000 ex_map Straight (ERef (Some (ex_rect "0" "0")) None) (ERef (Some (ex_rect "30" "40")) None) = Ok (s', e')
    /\ eo s' = (10, 10) /\ eo e' = (30, 40).
Proof. eexists. eexists. split; [vm_compute; reflexivity | split; reflexivity]. Qed.
Example ex_corner_route :
  let k := Build_connector QOps (ex_rect "0" "0") None None (qep 5 10 (Some DDown)) (qep 35 40 (Some DUp)) Corner None in
  exists pts, render_points QOps ex_strp ex_map k = Ok pts /\ List.length pts = 4%nat /\
              hd_error pts = Some (5, 10) /\ hd_error (rev pts) = Some (35, 40).
Proof. eexists. split; [vm_compute; reflexivity | repeat split]. Qed.
Example ex_horizontal :
  let k := Build_connector QOps (ex_rect "0" "0") (Some (ex_rect "0" "0")) (Some (ex_rect "30" "40"))
             (qep 10 5 (Some DRight)) (qep 30 45 (Some DLeft)) Horizontal None in
  exists m, render_points QOps ex_strp ex_map k = Ok [(10, m); (30, m)] /\ m == 25.
Proof. eexists. split; [vm_compute; reflexivity | reflexivity]. Qed.
Example ex_attrs_removed :
  let e := new_el QOps "line" [("start", "#a"); ("end", "#b"); ("edge-type", "h"); ("stroke", "red")]%string in
  is_connector QOps e = true /\ NoDup (keys (eattrs QOps e)) /\
  exists e', transmute_conn QOps ex_strp (fun _ => "n"%string) 1000000 ex_map e = Ok e' /\
             eget QOps e' "stroke" = Some "red"%string /\ eget QOps e' "x1" = Some "n"%string.
Proof.
  split; [vm_compute; reflexivity|]. split.
  - vm_compute. repeat constructor; cbn; intuition discriminate.
  - eexists. split; [vm_compute; reflexivity | split; reflexivity].
Qed.

Print Assumptions candidates_edge_midpoints_plus_corners. Print Assumptions endpoint_on_named_loc.
Print Assumptions literal_point_verbatim. Print Assumptions literal_point_parsed.
Print Assumptions endpoint_minimal. Print Assumptions endpoint_minimal_start. Print Assumptions endpoint_minimal_end.
Print Assumptions endpoint_first_minimum. Print Assumptions endpoint_pair_first_minimum.
Print Assumptions direction_of_named_location. Print Assumptions direction_of_edge_offset.
Print Assumptions from_element_uses_link. Print Assumptions straight_joins_endpoints.
Print Assumptions hv_axis_parallel_mid_overlap_h. Print Assumptions hv_axis_parallel_mid_overlap_v.
Print Assumptions corner_segments_axis_parallel. Print Assumptions corner_leaves_perpendicular.
Print Assumptions corner_without_direction_is_straight. Print Assumptions corner_rejected_only_for_u_with_percent.
Print Assumptions corner_default_offsets. Print Assumptions connector_attrs_removed.
