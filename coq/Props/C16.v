(* C16 Loops and conditionals render exactly what their unrolling renders.
   The unrolling equations of the pipeline skeleton (Model/Pipeline.v), for EVERY evaluator and leaf generator:
   a loop is one pass of its body, with the loop variable bound to the current value, followed by the loop for the
   remaining passes; while tests before each pass, until after each pass (so at least once); <for> binds each item
   (and index) in turn; <if> is its body exactly when the test is non-zero. *)
From Coq Require Import String Ascii List Bool ZArith.
From SvgdxModel Require Import Base.Str Base.Res Num.F32 Num.F64 Num.NumOps Gen.Tables Model.Types Model.Geom
  Model.Position Model.Scan Model.Element Model.Xml Model.Pipeline Proofs.PipelineP.
Import ListNotations.
Open Scope string_scope.

Section C16.
Context (N : NumOps) (ES : Type)
  (eva : (string -> option string) -> emap N -> string -> ES -> res (string * ES))
  (evc : (string -> option string) -> emap N -> string -> ES -> res (bool * ES))
  (evl : (string -> option string) -> emap N -> string -> ES -> res (list string * ES))
  (leaf : pctx N ES -> el N -> res (evs * option (bbox N)) * lst N ES)
  (el_bbox_of : el N -> res (option (bbox N)))
  (instantiate : pctx N ES -> el N -> el N -> res (el N) * lst N ES)
  (kidtab : Z -> option (list (node N)))
  (clip : pctx N ES -> el N -> option (bbox N) -> res (option (bbox N)) * lst N ES)
  (text_unescape : string -> string).
Local Notation process_events := (process_events N ES eva evc evl leaf el_bbox_of instantiate kidtab clip text_unescape).
Local Notation gen_if := (gen_if N ES eva evc evl leaf el_bbox_of instantiate kidtab clip text_unescape).
Local Notation loop_iter := (loop_iter N ES eva evc evl leaf el_bbox_of instantiate kidtab clip text_unescape).
Local Notation for_iter := (for_iter N ES eva evc evl leaf el_bbox_of instantiate kidtab clip text_unescape).
Local Notation eval_cond := (eval_cond N ES evc).
Local Notation set_loop_var := (set_loop_var N ES).
Local Notation set_for_vars := (set_for_vars N ES).
Local Notation limit c := (c_loop_limit (px_cfg N ES c)).

Theorem if_unrolls_true : forall f e ks c test c1, eget N e "test" = Some test -> eval_cond c test = (Ok true, c1) ->
  gen_if (S f) e (Some ks) c = process_events f ks c1.
Proof. exact (if_true_is_body N ES eva evc evl leaf el_bbox_of instantiate kidtab clip text_unescape). Qed.
Theorem if_unrolls_false : forall f e ks c test c1, eget N e "test" = Some test -> eval_cond c test = (Ok false, c1) ->
  gen_if (S f) e (Some ks) c = (Ok ([], None), c1).
Proof. exact (if_false_is_nothing N ES eva evc evl leaf el_bbox_of instantiate kidtab clip text_unescape). Qed.

Theorem loop_count_unrolls : forall f ex cnt nm st ks it v acc bb c ev b c3, (it < cnt)%Z ->
  process_events f ks (set_loop_var c nm v) = (Ok (ev, b), c3) -> (it + 1 <= limit c3)%Z ->
  loop_iter (S f) 0 ex cnt nm st ks it v acc bb c =
  loop_iter f 0 ex cnt nm st ks (it + 1)%Z (f64_add v st) (acc ++ ev)%list (bb_opt_union N bb b) c3.
Proof. exact (PipelineP.loop_count_unrolls N ES eva evc evl leaf el_bbox_of instantiate kidtab clip text_unescape). Qed.
Theorem loop_count_ends : forall f ex cnt nm st ks it v acc bb c, (cnt <= it)%Z ->
  loop_iter (S f) 0 ex cnt nm st ks it v acc bb c = (Ok (acc, bb), c).
Proof. exact (loop_count_done N ES eva evc evl leaf el_bbox_of instantiate kidtab clip text_unescape). Qed.

Theorem loop_while_unrolls : forall f ex cnt nm st ks it v acc bb c c1 ev b c3, eval_cond c ex = (Ok true, c1) ->
  process_events f ks (set_loop_var c1 nm v) = (Ok (ev, b), c3) -> (it + 1 <= limit c3)%Z ->
  loop_iter (S f) 1 ex cnt nm st ks it v acc bb c =
  loop_iter f 1 ex cnt nm st ks (it + 1)%Z (f64_add v st) (acc ++ ev)%list (bb_opt_union N bb b) c3.
Proof. exact (PipelineP.loop_while_unrolls N ES eva evc evl leaf el_bbox_of instantiate kidtab clip text_unescape). Qed.
Theorem loop_while_tested_before_each_pass : forall f ex cnt nm st ks it v acc bb c c1, eval_cond c ex = (Ok false, c1) ->
  loop_iter (S f) 1 ex cnt nm st ks it v acc bb c = (Ok (acc, bb), c1).
Proof. exact (loop_while_tests_first N ES eva evc evl leaf el_bbox_of instantiate kidtab clip text_unescape). Qed.

Theorem loop_until_unrolls : forall f ex cnt nm st ks it v acc bb c ev b c3 c4,
  process_events f ks (set_loop_var c nm v) = (Ok (ev, b), c3) -> (it + 1 <= limit c3)%Z ->
  eval_cond c3 ex = (Ok false, c4) ->
  loop_iter (S f) 2 ex cnt nm st ks it v acc bb c =
  loop_iter f 2 ex cnt nm st ks (it + 1)%Z (f64_add v st) (acc ++ ev)%list (bb_opt_union N bb b) c4.
Proof. exact (PipelineP.loop_until_unrolls N ES eva evc evl leaf el_bbox_of instantiate kidtab clip text_unescape). Qed.
Theorem loop_until_at_least_once : forall f ex cnt nm st ks it v acc bb c ev b c3 c4,
  process_events f ks (set_loop_var c nm v) = (Ok (ev, b), c3) -> (it + 1 <= limit c3)%Z ->
  eval_cond c3 ex = (Ok true, c4) ->
  loop_iter (S f) 2 ex cnt nm st ks it v acc bb c = (Ok ((acc ++ ev)%list, bb_opt_union N bb b), c4).
Proof. exact (loop_until_runs_first N ES eva evc evl leaf el_bbox_of instantiate kidtab clip text_unescape). Qed.

Theorem for_unrolls : forall f var idxv ks item rest idx acc bb c ev b c1,
  process_events f ks (set_for_vars c var idxv item idx) = (Ok (ev, b), c1) -> (idx + 1 <= limit c1)%Z ->
  for_iter (S f) var idxv ks (item :: rest) idx acc bb c =
  for_iter f var idxv ks rest (idx + 1)%Z (acc ++ ev)%list (bb_opt_union N bb b) c1.
Proof. exact (PipelineP.for_unrolls N ES eva evc evl leaf el_bbox_of instantiate kidtab clip text_unescape). Qed.
Theorem for_ends : forall f var idxv ks idx acc bb c, for_iter (S f) var idxv ks [] idx acc bb c = (Ok (acc, bb), c).
Proof. exact (for_done N ES eva evc evl leaf el_bbox_of instantiate kidtab clip text_unescape). Qed.
End C16.

Print Assumptions if_unrolls_true. Print Assumptions if_unrolls_false. Print Assumptions loop_count_unrolls.
Print Assumptions loop_count_ends. Print Assumptions loop_while_unrolls. Print Assumptions loop_while_tested_before_each_pass.
Print Assumptions loop_until_unrolls. Print Assumptions loop_until_at_least_once. Print Assumptions for_unrolls. Print Assumptions for_ends.
