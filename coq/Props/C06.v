(* C06 Determinism: same input and configuration give the same bytes, every time.
   What is proved here: (a) the theme builder's result does not depend on the iteration order of
   the class / element hash sets (Model/Themes.v); (b) the random stream (Model/Rng.v, bit-exact
   model of Pcg32 + seed_from_u64 + random::<f32>() + random_range(i32)) is a function of the seed:
   the k-th word is prefix-stable, requests compose, values stay in range.
   Not modelled: MultiError display and reuse attribute iteration (covered by the repeat-run oracle). *)
From Coq Require Import ZArith String List Bool Permutation.
From SvgdxModel Require Import Base.Res Gen.Tables Model.Themes Model.Rng Proofs.ThemesP Proofs.RngP.
Import ListNotations.
Open Scope Z_scope.

(* the only hash-order dependent step, append_pattern_styles, sorts before emitting *)
Theorem theme_order_independent : forall st els els' cls cls',
  Permutation cls cls' -> Permutation els els' -> build st els cls = build st els' cls'.
Proof. exact build_perm. Qed.
Theorem pattern_classes_sorted : pattern_sorted = true.
Proof. exact pattern_sorted_true. Qed.
(* order of the output events' classes within the collected set is irrelevant as well *)
Theorem auto_styles_order_independent : forall b1 b2 st evs cls' els',
  Permutation (collect_classes evs) cls' -> Permutation (collect_elements evs) els' ->
  auto_styles b1 b2 st evs = if (b2 && b1)%bool then Some (build st els' cls') else None.
Proof. exact auto_styles_perm. Qed.

(* the k-th raw word of the stream is a function of (seed, k): drawing more words later does not change it *)
Theorem rng_function_of_seed : forall seed n,
  fst (run_draws (repeat DWord n) (seed_from_u64 seed)) = map (nth_word seed) (seq 0 n).
Proof. exact words_prefix_stable. Qed.
(* the generator pair is the whole state: a request list can be split anywhere *)
Theorem rng_draws_compose : forall a b g,
  run_draws (a ++ b) g =
  let '(va, g1) := run_draws a g in let '(vb, g2) := run_draws b g1 in ((va ++ vb)%list, g2).
Proof. exact run_draws_app. Qed.
(* each request advances the state by one or two LCG steps, a pure function of the state *)
Theorem rng_state_update_pure : forall d g,
  snd (draw_one d g) = nth_state 1 g \/ snd (draw_one d g) = nth_state 2 g.
Proof. exact draw_one_state. Qed.
Theorem rng_seed_well_formed : forall seed,
  0 <= fst (seed_from_u64 seed) < two64 /\ Z.odd (snd (seed_from_u64 seed)) = true.
Proof. exact seed_well_formed. Qed.
(* random() is m / 2^24 with 0 <= m < 2^24; randint(lo, hi) lies in [lo, hi] *)
Theorem random_unit_interval : forall g, 0 <= fst (random_m24 g) < 2 ^ 24.
Proof. exact random_m24_range. Qed.
Theorem randint_in_range : forall lo hi g, lo <= hi -> - 2 ^ 31 <= lo -> hi < 2 ^ 31 ->
  lo <= fst (random_range_i32 lo hi g) <= hi.
Proof. exact random_range_bounds. Qed.

(* concrete, non-trivial instances (values validated against the implementation) *)
Example ex_seed_42 :
  fst (run_draws [DRandom; DRandom; DRandInt 1 6; DRandInt (-1000) 1000; DRandInt 0 2147483647; DRandom; DWord] (seed_from_u64 42))
  = [13281394; 13085021; 1; 968; 778076127; 10848219; 3631167442].
Proof. vm_compute. reflexivity. Qed.
Example ex_order : build (mkSettings "default" "default" (F32.of_Z 3) "sans-serif" None) ["rect"] ["d-grid-5"; "d-grid-10"; "d-grid-20"]
                 = build (mkSettings "default" "default" (F32.of_Z 3) "sans-serif" None) ["rect"] ["d-grid-20"; "d-grid-5"; "d-grid-10"].
Proof. vm_compute. reflexivity. Qed.

Print Assumptions theme_order_independent. Print Assumptions pattern_classes_sorted.
Print Assumptions auto_styles_order_independent. Print Assumptions rng_function_of_seed.
Print Assumptions rng_draws_compose. Print Assumptions rng_state_update_pure.
Print Assumptions rng_seed_well_formed. Print Assumptions random_unit_interval. Print Assumptions randint_in_range.
