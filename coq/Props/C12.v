(* C12 Containment: surround encloses, inside is enclosed (exact arithmetic). *)
From Coq Require Import QArith String List Bool.
From SvgdxModel Require Import Base.Str Base.Res Num.NumOps Gen.Tables Model.Types Model.Geom Model.Position
  Model.Element Proofs.TypesP Proofs.RelPosP Proofs.ContainP.
Import ListNotations.

(* surround: the union box encloses every listed box and is the least such box, for any list length *)
Theorem surround_union_encloses : forall (l : list QB) (u b : QB), bb_union QOps l = Some u -> In b l -> within b u.
Proof. exact union_encloses. Qed.
Theorem surround_union_least : forall (l : list QB) (u c : QB),
  bb_union QOps l = Some u -> (forall b, In b l -> within b c) -> within u c.
Proof. exact union_least. Qed.
(* margin: each side grows by its own (absolute or percent-of-base) amount; non-negative margins enclose *)
Theorem surround_margin_exact : forall (b : QB) (m : trbl QOps),
  let base := Qmax' (bx2 b - bx1 b) (by2 b - by1 b) in
  let g := bb_expand_trbl QOps b m in
  bx1 g == bx1 b - len_evaluate QOps (t_left QOps m) base /\ by1 g == by1 b - len_evaluate QOps (t_top QOps m) base /\
  bx2 g == bx2 b + len_evaluate QOps (t_right QOps m) base /\ by2 g == by2 b + len_evaluate QOps (t_bottom QOps m) base.
Proof. exact expand_trbl_exact. Qed.
Theorem surround_margin_encloses : forall (b : QB) (m : trbl QOps),
  nonneg_trbl m (Qmax' (bx2 b - bx1 b) (by2 b - by1 b)) -> within b (bb_expand_trbl QOps b m).
Proof. exact expand_trbl_encloses. Qed.
(* circle / ellipse circumscribe the grown box: the corner satisfies the circle (ellipse) inequality up
   to the factor k*k/2 where k is the code's SQRT_2 constant, which is within 1e-7 of sqrt 2 *)
Theorem surround_circle_encloses : forall w h : Q, 0 <= w -> 0 <= h ->
  let k := nsqrt2 QOps in
  (sq (w / 2) + sq (h / 2)) * (k * k) <= 2 * sq (contain_circle_r QOps false w h).
Proof. exact surround_circle_corner. Qed.
Theorem surround_ellipse_encloses : forall w h : Q,
  let k := nsqrt2 QOps in
  let rx := contain_ellipse_r QOps false w in let ry := contain_ellipse_r QOps false h in
  (sq (w / 2) * sq ry + sq (h / 2) * sq rx) * (k * k) == 2 * sq rx * sq ry.
Proof. exact surround_ellipse_corner. Qed.
Theorem sqrt2_constant : 2 - nsqrt2 QOps * nsqrt2 QOps <= 1 # 10000000 /\ 0 <= 2 - nsqrt2 QOps * nsqrt2 QOps.
Proof. exact sqrt2_constant_close. Qed.

(* inside: the intersection lies within every listed box; shrinking by non-negative margins stays within *)
Theorem inside_intersection_within : forall (l : list QB) (i b : QB),
  bb_intersection QOps l = Some i -> In b l -> within i b.
Proof. exact intersection_within. Qed.
Theorem inside_margin_within : forall (b : QB) (m : trbl QOps),
  nonneg_trbl m (Qmin' (bx2 b - bx1 b) (by2 b - by1 b)) -> within (bb_shrink_trbl QOps b m) b.
Proof. exact shrink_trbl_within. Qed.
Theorem inside_circle_within : forall b : QB, bx1 b <= bx2 b -> by1 b <= by2 b ->
  let w := bx2 b - bx1 b in let h := by2 b - by1 b in
  let r := contain_circle_r QOps true w h in
  let cx := fst (bb_center QOps b) in let cy := snd (bb_center QOps b) in
  within (qbb (cx - r) (cy - r) (cx + r) (cy + r)) b.
Proof. exact inscribed_circle_within. Qed.
(* a rect inside a circle / ellipse uses the inscribed square: its corners are inside the circle *)
Theorem inside_rect_in_circle : forall r : Q, 0 <= r ->
  sq (r * nfrac1sqrt2 QOps) + sq (r * nfrac1sqrt2 QOps) <= sq r.
Proof. intros r Hr. apply inscribed_square_in_circle; [exact Hr | exact frac_1_sqrt2_ok]. Qed.

Theorem containment_attrs_removed :
  forall (N : NumOps) strp fstr c e e' k,
  (eget N e "surround" <> None \/ eget N e "inside" <> None) ->
  handle_containment N strp fstr c e = Ok e' -> NoDup (keys (eattrs N e)) ->
  In k containment_remove -> eget N e' k = None.
Proof. exact handle_containment_removes. Qed.

Example union_example : within (qbb 1 1 2 2) (qbb 0 0 5 (7#2)) /\
  bb_union QOps [qbb 1 1 2 2; qbb 0 (1#2) 5 3; qbb 3 0 4 (7#2)] = Some (qbb 0 0 5 (7#2)).
Proof. split; [unfold within; cbn; repeat split; discriminate | reflexivity]. Qed.

Print Assumptions surround_union_encloses. Print Assumptions surround_union_least.
Print Assumptions surround_margin_exact. Print Assumptions surround_margin_encloses.
Print Assumptions surround_circle_encloses. Print Assumptions surround_ellipse_encloses.
Print Assumptions sqrt2_constant. Print Assumptions inside_intersection_within.
Print Assumptions inside_margin_within. Print Assumptions inside_circle_within.
Print Assumptions inside_rect_in_circle. Print Assumptions containment_attrs_removed.
