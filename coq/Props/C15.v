(* C15 Variable scoping is lexical and unaffected by evaluation order.
   The scope discipline of the pipeline skeleton (Model/Pipeline.v), for EVERY evaluator, leaf generator and reuse
   instantiation: whatever happens inside an element - success, failure, retries of its content - the element stack is
   back in place, every scope below the top one is untouched and the top scope is still the top scope; a group gives
   back exactly the scope stack it found; lookups go innermost first. *)
From Coq Require Import String Ascii List Bool ZArith.
From SvgdxModel Require Import Base.Str Base.Res Num.F32 Num.F64 Num.NumOps Gen.Tables Model.Types Model.Geom
  Model.Position Model.Scan Model.Element Model.Xml Model.Pipeline Proofs.PipelineP.
Import ListNotations.
Open Scope string_scope.

Section C15.
Context (N : NumOps) (ES : Type)
  (eva : (string -> option string) -> emap N -> string -> ES -> res (string * ES))
  (evc : (string -> option string) -> emap N -> string -> ES -> res (bool * ES))
  (evl : (string -> option string) -> emap N -> string -> ES -> res (list string * ES))
  (leaf : pctx N ES -> el N -> res (evs * option (bbox N)) * lst N ES)
  (el_bbox_of : el N -> res (option (bbox N)))
  (instantiate : pctx N ES -> el N -> el N -> res (el N) * lst N ES)
  (kidtab : Z -> option (list (node N)))
  (clip : pctx N ES -> el N -> option (bbox N) -> res (option (bbox N)) * lst N ES)
  (text_unescape : string -> string).
Local Notation gen := (gen N ES eva evc evl leaf el_bbox_of instantiate kidtab clip text_unescape).
Local Notation process_events := (process_events N ES eva evc evl leaf el_bbox_of instantiate kidtab clip text_unescape).
Local Notation gen_group := (gen_group N ES eva evc evl leaf el_bbox_of instantiate kidtab clip text_unescape).

(* every element, Ok or Err: element stack restored, scopes below the top untouched, the top still in place *)
Theorem scope_restored : forall fuel e kids c r c', nn N ES c -> gen fuel e kids c = (r, c') ->
  px_estack N ES c' = px_estack N ES c /\ scopes_rel (px_scopes N ES c) (px_scopes N ES c').
Proof.
  intros fuel e kids c r c' Hn H.
  destruct (gen_frame N ES eva evc evl leaf el_bbox_of instantiate kidtab clip text_unescape fuel e kids c r c' Hn H) as (H1 & H2 & _).
  split; assumption.
Qed.
(* the same for a whole level of siblings, including all retries of the retry loop *)
Theorem level_scope_restored : forall fuel ns c r c', nn N ES c -> process_events fuel ns c = (r, c') ->
  px_estack N ES c' = px_estack N ES c /\ scopes_rel (px_scopes N ES c) (px_scopes N ES c').
Proof.
  intros fuel ns c r c' Hn H.
  destruct (process_events_frame N ES eva evc evl leaf el_bbox_of instantiate kidtab clip text_unescape fuel ns c r c' Hn H) as (H1 & H2 & _).
  split; assumption.
Qed.
(* attributes of a group shadow outer values for its descendants only: afterwards the scope stack is EXACTLY as before,
   whether the content succeeded or failed (e.g. on a forward reference that is retried later) *)
Theorem group_scope_exact : forall fuel e kids c r c', nn N ES c -> gen_group fuel e kids c = (r, c') ->
  px_scopes N ES c' = px_scopes N ES c /\ px_estack N ES c' = px_estack N ES c.
Proof. exact (group_scopes_exact N ES eva evc evl leaf el_bbox_of instantiate kidtab clip text_unescape). Qed.
(* all attributes of one <var> are assigned together, after all of them have been evaluated in the old bindings *)
Theorem var_changes_only_top_scope : forall l newv c r c', gen_var N ES eva l newv c = (r, c') -> inv N ES c c'.
Proof. intros l newv c r c' H. exact (gen_var_inv N ES eva l newv c r c' H). Qed.
End C15.

(* innermost binding wins *)
Theorem lexical_lookup : forall (inner : scope) outer name v, assoc name inner = Some v -> get_var (inner :: outer) name = Some v.
Proof. intros inner outer name v H. cbn. now rewrite H. Qed.
Theorem lexical_lookup_outer : forall (inner : scope) outer name, assoc name inner = None -> get_var (inner :: outer) name = get_var outer name.
Proof. intros inner outer name H. cbn. now rewrite H. Qed.

Print Assumptions scope_restored. Print Assumptions level_scope_restored. Print Assumptions group_scope_exact.
Print Assumptions var_changes_only_top_scope. Print Assumptions lexical_lookup. Print Assumptions lexical_lookup_outer.
