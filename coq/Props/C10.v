(* C10 Forward references: geometry is independent of document order.
   (1) the retry loop in the abstract: for an evaluation step that is monotone in the set of resolved elements the loop
       computes the least environment closed under the step, so its result does not depend on the order;
   (2) the concrete process_tags of the pipeline model: what remains pending only shrinks, the pass budget suffices. *)
From Coq Require Import String Ascii List Bool ZArith Arith.
From SvgdxModel Require Import Base.Str Base.Res Num.F32 Num.F64 Num.NumOps Gen.Tables Model.Types Model.Geom
  Model.Position Model.Scan Model.Element Model.Xml Model.Pipeline Proofs.PipelineP Proofs.RetryP.
Import ListNotations.
Close Scope Z_scope.

(* the final environment is the least one that contains the initial environment and is closed under the step;
   the loop succeeds exactly when nothing remains pending *)
Theorem retry_least : forall (K G : Type) (Keq : forall a b : K, {a = b} + {a <> b}) (step : RetryP.env K G -> K -> option G),
  (forall e e' k g, RetryP.sub K G Keq e e' -> step e k = Some g -> step e' k = Some g) ->
  forall fuel D e ef rem, NoDup D -> RetryP.fresh K G Keq e D -> List.length D <= fuel -> RetryP.loop_env K G step fuel e D = (ef, rem) ->
  RetryP.sub K G Keq e ef /\ incl rem D /\ (forall t, In t rem -> step ef t = None) /\
  (forall t, In t D -> In t rem \/ exists g, RetryP.lookup K G Keq ef t = Some g) /\
  (forall E, RetryP.sub K G Keq e E -> RetryP.complete K G Keq step D E -> RetryP.sub K G Keq ef E) /\
  (RetryP.loop K G step fuel e D = if Nat.eqb (List.length rem) 0 then Some ef else None).
Proof. exact loop_env_least. Qed.

(* document order is irrelevant: two orders of the same elements give the same lookups and fail together *)
Theorem retry_order_independent : forall (K G : Type) (Keq : forall a b : K, {a = b} + {a <> b}) (step : RetryP.env K G -> K -> option G),
  (forall e e' k g, RetryP.sub K G Keq e e' -> step e k = Some g -> step e' k = Some g) ->
  forall D D' e ef rem ef' rem',
  RetryP.sound K G Keq step e -> NoDup D -> NoDup D' -> (forall t, In t D <-> In t D') -> RetryP.fresh K G Keq e D ->
  RetryP.loop_env K G step (List.length D) e D = (ef, rem) -> RetryP.loop_env K G step (List.length D') e D' = (ef', rem') ->
  (forall k, RetryP.lookup K G Keq ef k = RetryP.lookup K G Keq ef' k) /\ (rem = [] <-> rem' = []).
Proof. exact RetryP.retry_order_independent. Qed.

(* the concrete retry loop of the pipeline model: a pass never adds pending elements *)
Theorem pass_only_shrinks : forall N ES eva evc evl leaf el_bbox_of instantiate kidtab clip text_unescape fuel pending c pr c',
  Pipeline.pass N ES eva evc evl leaf el_bbox_of instantiate kidtab clip text_unescape fuel pending c = (pr, c') ->
  subseq (pr_rem N pr) pending.
Proof. exact pass_remaining. Qed.

(* non-vacuity of the monotone-step theorem: a three element chain written in reverse order resolves in three passes *)
Definition ex_step (e : RetryP.env nat nat) (k : nat) : option nat :=
  match k with
  | 0 => Some 10
  | S j => match RetryP.lookup nat nat Nat.eq_dec e j with Some v => Some (v + 1) | None => None end
  end.
Example chain_reverse_order : RetryP.loop nat nat ex_step 3 [] [2; 1; 0] = Some [(2, 12); (1, 11); (0, 10)].
Proof. vm_compute. reflexivity. Qed.

(* non-vacuity of retry_order_independent: the same chain in two orders gives the same lookups *)
Example chain_two_orders : forall k,
  RetryP.lookup nat nat Nat.eq_dec (fst (RetryP.loop_env nat nat ex_step 3 [] [2; 1; 0])) k =
  RetryP.lookup nat nat Nat.eq_dec (fst (RetryP.loop_env nat nat ex_step 3 [] [1; 0; 2])) k.
Proof. intro k. do 3 (destruct k as [|k]; [vm_compute; reflexivity|]). vm_compute. reflexivity. Qed.

(* the monotonicity hypothesis cannot be dropped: a step that answers from a default when its target is not resolved yet
   (the abstract shape of known finding K3: an element evaluated against a registered but unplaced target) succeeds in both
   orders of the same two elements and gives different values *)
Definition k3_step (e : RetryP.env nat nat) (k : nat) : option nat :=
  match k with
  | 0 => Some 10
  | S j => match RetryP.lookup nat nat Nat.eq_dec e j with Some v => Some (v + 1) | None => Some 0 end
  end.
Theorem order_independence_needs_monotone_refuted :
  exists ef ef' : RetryP.env nat nat,
  (RetryP.loop_env nat nat k3_step 2 [] [0; 1] = (ef, @nil nat)) /\
  (RetryP.loop_env nat nat k3_step 2 [] [1; 0] = (ef', @nil nat)) /\
  (RetryP.lookup nat nat Nat.eq_dec ef 1 <> RetryP.lookup nat nat Nat.eq_dec ef' 1).
Proof. exists [(1, 11); (0, 10)], [(0, 10); (1, 0)]. repeat split; try (vm_compute; reflexivity). vm_compute. discriminate. Qed.


Print Assumptions retry_least. Print Assumptions order_independence_needs_monotone_refuted. Print Assumptions retry_order_independent. Print Assumptions pass_only_shrinks.
