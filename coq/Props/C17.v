(* C17 Limits reject exactly when exceeded; depth means nesting, not length.
   Theorems about the pipeline skeleton (Model/Pipeline.v): they hold for EVERY expression evaluator,
   leaf generator, reuse instantiation and clip function (all section parameters). *)
From Coq Require Import String Ascii List Bool ZArith.
From SvgdxModel Require Import Base.Str Base.Res Num.F32 Num.F64 Num.NumOps Gen.Tables Model.Types Model.Geom
  Model.Position Model.Scan Model.Element Model.Xml Model.Pipeline Proofs.PipelineP.
Import ListNotations.
Open Scope string_scope.

(* the depth counter returns to its previous value when an element finishes, successfully or not,
   up to the number of depth-limit failures that occurred (the ghost counter px_over); element stack and
   scope stack are back in place *)
Theorem depth_restored : forall N ES eva evc evl leaf el_bbox_of instantiate kidtab clip text_unescape fuel e kids c r c',
  nn N ES c ->
  gen N ES eva evc evl leaf el_bbox_of instantiate kidtab clip text_unescape fuel e kids c = (r, c') ->
  inv N ES c c'.
Proof. exact gen_frame. Qed.

(* rejected for depth at its own entry exactly when the counter would exceed the limit *)
Theorem depth_exceeded : forall N ES eva evc evl leaf el_bbox_of instantiate kidtab clip text_unescape f e kids c,
  (limit_of N ES c < px_depth N ES c + 1)%Z ->
  fst (gen N ES eva evc evl leaf el_bbox_of instantiate kidtab clip text_unescape (S f) e kids c) = Err EDepthLimit.
Proof. exact gen_depth_exceeded. Qed.

(* depth is nesting, not length: the counter is the same for every sibling of a level *)
Theorem flat_documents_keep_depth : forall N ES eva evc evl leaf el_bbox_of instantiate kidtab clip text_unescape fuel pending c pr c',
  nn N ES c -> pass N ES eva evc evl leaf el_bbox_of instantiate kidtab clip text_unescape fuel pending c = (pr, c') ->
  px_over N ES c' = px_over N ES c -> px_depth N ES c' = px_depth N ES c.
Proof. exact siblings_same_depth. Qed.

(* count loops: never rejected at or below the limit, always rejected above it *)
Theorem loop_limit_never_spurious : forall N ES eva evc evl leaf el_bbox_of instantiate kidtab clip text_unescape
    fuel ex cnt nm st ks it v acc bb c r c',
  nn N ES c -> body_no_looplimit N ES eva evc evl leaf el_bbox_of instantiate kidtab clip text_unescape ks ->
  (cnt <= llimit N ES c)%Z ->
  loop_iter N ES eva evc evl leaf el_bbox_of instantiate kidtab clip text_unescape fuel 0 ex cnt nm st ks it v acc bb c = (r, c') ->
  r <> Err ELoopLimit.
Proof. exact loop_limit_not_spurious. Qed.
Theorem loop_limit_is_enforced : forall N ES eva evc evl leaf el_bbox_of instantiate kidtab clip text_unescape
    n fuel F0 ex cnt nm st ks it v acc bb c,
  nn N ES c -> body_ok N ES eva evc evl leaf el_bbox_of instantiate kidtab clip text_unescape F0 ks ->
  (llimit N ES c < cnt)%Z -> (it <= llimit N ES c)%Z -> n = Z.to_nat (llimit N ES c - it) -> (F0 + n + 1 <= fuel)%nat ->
  fst (loop_iter N ES eva evc evl leaf el_bbox_of instantiate kidtab clip text_unescape fuel 0 ex cnt nm st ks it v acc bb c) = Err ELoopLimit.
Proof. exact loop_limit_enforced. Qed.

(* <for>: the same, in the number of items *)
Theorem for_limit_never_spurious : forall N ES eva evc evl leaf el_bbox_of instantiate kidtab clip text_unescape
    fuel var idxv ks items idx acc bb c r c',
  nn N ES c -> body_no_looplimit N ES eva evc evl leaf el_bbox_of instantiate kidtab clip text_unescape ks ->
  (idx + Z.of_nat (List.length items) <= llimit N ES c)%Z ->
  for_iter N ES eva evc evl leaf el_bbox_of instantiate kidtab clip text_unescape fuel var idxv ks items idx acc bb c = (r, c') ->
  r <> Err ELoopLimit.
Proof. exact for_limit_not_spurious. Qed.
Theorem for_limit_is_enforced : forall N ES eva evc evl leaf el_bbox_of instantiate kidtab clip text_unescape
    items fuel F0 var idxv ks idx acc bb c,
  nn N ES c -> body_ok N ES eva evc evl leaf el_bbox_of instantiate kidtab clip text_unescape F0 ks ->
  (0 <= idx)%Z -> (llimit N ES c < idx + Z.of_nat (List.length items))%Z -> (idx <= llimit N ES c)%Z ->
  (F0 + List.length items + 1 <= fuel)%nat ->
  fst (for_iter N ES eva evc evl leaf el_bbox_of instantiate kidtab clip text_unescape fuel var idxv ks items idx acc bb c) = Err ELoopLimit.
Proof. exact for_limit_enforced. Qed.

(* <var>: a value longer than var-limit is rejected; a rejection always has such a value as its cause *)
Theorem var_limit_is_enforced : forall N ES eva k v r newv c v' c1,
  (String.eqb k "_" || String.eqb k "__")%bool = false -> eval_attr N ES eva c v = (Ok v', c1) ->
  (c_var_limit (px_cfg N ES c1) < Z.of_nat (String.length v'))%Z ->
  gen_var N ES eva ((k, v) :: r) newv c = (Err EVarLimit, c1).
Proof. exact var_limit_enforced. Qed.
Theorem var_limit_never_spurious : forall N ES eva l newv c c',
  (forall c0 v r0 c1, eval_attr N ES eva c0 v = (r0, c1) -> r0 <> Err EVarLimit) ->
  gen_var N ES eva l newv c = (Err EVarLimit, c') ->
  exists k v c0 v' c1, In (k, v) l /\ eval_attr N ES eva c0 v = (Ok v', c1) /\
                       (c_var_limit (px_cfg N ES c1) < Z.of_nat (String.length v'))%Z.
Proof. exact var_limit_not_spurious. Qed.

Print Assumptions depth_restored. Print Assumptions depth_exceeded. Print Assumptions flat_documents_keep_depth.
Print Assumptions loop_limit_never_spurious. Print Assumptions loop_limit_is_enforced.
Print Assumptions for_limit_never_spurious. Print Assumptions for_limit_is_enforced.
Print Assumptions var_limit_is_enforced. Print Assumptions var_limit_never_spurious.
