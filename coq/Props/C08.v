(* C08 Root extent: viewBox, width and height enclose exactly the drawn content.
   Geometry on exact rationals (QOps); the attribute synthesis for every number instance.
   Statements only; proofs are in Proofs/RootP.v. *)
From Coq Require Import QArith String List Bool ZArith Permutation.
From SvgdxModel Require Import Base.Str Base.Res Num.F32 Num.NumOps Gen.Tables Model.Types Model.Geom Model.Position
  Model.Scan Model.Element Model.Root Model.Run Proofs.TypesP Proofs.RelPosP Proofs.ContainP Proofs.RootP.
Import ListNotations.
Open Scope Q_scope.

(* ---- write_root_svg: for every extent, border, scale, and every subset of {width, height, viewBox,
   version, xmlns, id, style} present on the root (any attribute list with distinct keys), the
   written attribute list is the specification [root_spec]: viewBox = the extent expanded by the border
   and rounded outward unless supplied; width/height = size x scale in the default unit unless
   supplied; one supplied dimension determines the other through the aspect ratio with the unit of the
   supplied one; supplied values verbatim; version / xmlns from the generated table only when missing;
   every other attribute untouched. Holds for both number instances. *)
Theorem root_attrs_spec :
  forall (N : NumOps) strp fstr (orig : attrs) (ext : option (bbox N)) border scale lid sty a,
  NoDup (keys orig) -> root_attrs N strp fstr orig ext border scale lid sty = Ok a ->
  root_spec N strp fstr orig ext border scale lid sty a.
Proof. exact root_attrs_meets_spec. Qed.
(* the only failure: exactly one of width / height supplied, and it is not number+unit; never a panic *)
Theorem root_attrs_total :
  forall (N : NumOps) strp fstr (orig : attrs) (ext : option (bbox N)) border scale lid sty,
  (exists a, root_attrs N strp fstr orig ext border scale lid sty = Ok a) \/
  (root_attrs N strp fstr orig ext border scale lid sty = Err EParse /\ ext <> None /\
   exists s, ((get orig "width" = Some s /\ get orig "height" = None) \/ (get orig "width" = None /\ get orig "height" = Some s)) /\
             split_unit N strp s = Err EParse).
Proof. exact root_attrs_outcome. Qed.
Theorem viewbox_is_four_numbers : forall (N : NumOps) fstr (b : bbox N),
  viewbox_str N fstr b =
  (fstr (bx1 b) ++ " " ++ fstr (by1 b) ++ " " ++ fstr (bb_width N b) ++ " " ++ fstr (bb_height N b))%string.
Proof. exact viewbox_text. Qed.
(* the constants of the property text, pinned to the regenerated tables: version 1.1, the SVG namespace,
   mm, single-space separators; defs / symbol / point add nothing; g, symbol, specs dispatch *)
Theorem root_tables :
  root_default_attrs = [("version", "1.1"); ("xmlns", "http://www.w3.org/2000/svg")]%string /\
  root_default_unit = "mm"%string /\ root_viewbox_seps = [""; " "; " "; " "; ""]%string /\
  (forall k, In k root_inserted_keys <-> In k root_keys) /\
  container_no_bbox = ["defs"; "symbol"]%string /\ leaf_no_bbox = ["point"]%string /\ group_no_bbox = ["symbol"]%string /\
  dispatch "g" = Some "GroupElement"%string /\ dispatch "symbol" = Some "GroupElement"%string /\
  dispatch "specs" = Some "SpecsElement"%string.
Proof. exact root_tables_ok. Qed.
Theorem derived_dimension_keeps_aspect : forall v w h : Q, 0 < w -> 0 < h ->
  (v / (w / h)) * w == v * h /\ (v * (w / h)) * h == v * w.
Proof. exact derived_dimension. Qed.

(* ---- border expansion and outward rounding ---- *)
Theorem round_outward_encloses : forall b : QB,
  let r := bb_round QOps b in
  within b r /\ bx1 b - bx1 r < 1 /\ by1 b - by1 r < 1 /\ bx2 r - bx2 b < 1 /\ by2 r - by2 b < 1 /\
  is_int (bx1 r) /\ is_int (by1 r) /\ is_int (bx2 r) /\ is_int (by2 r).
Proof. exact round_outward. Qed.
Theorem expand_monotone : forall (a b : QB) (ex ey : Q),
  within a b -> within (bb_expand QOps a ex ey) (bb_expand QOps b ex ey).
Proof. exact expand_mono. Qed.
Theorem expand_encloses : forall (b : QB) (ex ey : Q), 0 <= ex -> 0 <= ey -> within b (bb_expand QOps b ex ey).
Proof. exact expand_within. Qed.
(* the box written as viewBox: integer, encloses the extent with at least the border and less than
   border + 1 on every side; monotone in the extent *)
Theorem viewbox_encloses_extent : forall (E : QB) (border : Q), 0 <= border ->
  let r := root_extent QOps E border in
  within E r /\
  bx1 r <= bx1 E - border /\ by1 r <= by1 E - border /\ bx2 E + border <= bx2 r /\ by2 E + border <= by2 r /\
  bx1 E - border - bx1 r < 1 /\ by1 E - border - by1 r < 1 /\ bx2 r - (bx2 E + border) < 1 /\ by2 r - (by2 E + border) < 1 /\
  is_int (bx1 r) /\ is_int (by1 r) /\ is_int (bx2 r) /\ is_int (by2 r).
Proof. exact root_extent_encloses. Qed.
Theorem viewbox_monotone : forall (A B : QB) (border : Q),
  within A B -> within (root_extent QOps A border) (root_extent QOps B border).
Proof. exact root_extent_mono. Qed.

(* ---- accumulation in process_tags ---- *)
(* BoundingBoxBuilder is bb_union (any number instance) *)
Theorem builder_is_union : forall (N : NumOps) (l : list (bbox N)),
  fold_left (bbb_extend (bb_combine N)) l None = bb_union N l.
Proof. exact builder_union. Qed.
(* for any tag type, context type and generator (so for any pattern of failures and retries): on
   success every tag has succeeded exactly once and the builder holds the boxes of the successes *)
Theorem process_tags_each_tag_once :
  forall (T C B : Type) (gen : C -> T -> C * outcome B) (combine : B -> B -> B) tags c c' b log,
  process_tags gen combine tags c = (c', Ok (b, log)) ->
  b = fold_left (bbb_extend combine) (log_boxes log) None /\ Permutation tags (map fst log).
Proof. exact (@process_tags_spec). Qed.
(* ... which is the union of those boxes, and the same as the union taken in any order / with repeats *)
Theorem accumulated_extent_is_union :
  forall (T C : Type) (gen : C -> T -> C * outcome QB) tags c c' b log,
  process_tags gen (bb_combine QOps) tags c = (c', Ok (b, log)) ->
  Permutation tags (map fst log) /\ b = bb_union QOps (log_boxes log) /\
  forall l2, (forall x, In x (log_boxes log) <-> In x l2) -> opt_box_eq b (bb_union QOps l2).
Proof. exact (@process_tags_union). Qed.
Theorem union_same_members_same_extent : forall l1 l2 : list QB,
  (forall b, In b l1 <-> In b l2) -> opt_box_eq (bb_union QOps l1) (bb_union QOps l2).
Proof. exact union_same_members. Qed.
Theorem union_order_independent : forall l1 l2 : list QB,
  Permutation l1 l2 -> opt_box_eq (bb_union QOps l1) (bb_union QOps l2).
Proof. exact union_permutation. Qed.
Theorem union_repetition_independent : forall l extra : list QB,
  incl extra l -> opt_box_eq (bb_union QOps (l ++ extra)) (bb_union QOps l).
Proof. exact union_duplicates. Qed.
(* the loop's own fuel (number of tags + 1) is always enough *)
Theorem process_tags_fuel :
  forall (T C B : Type) (gen : C -> T -> C * outcome B) (combine : B -> B -> B) tags c,
  (forall c0 t0, snd (gen c0 t0) <> FatalFuel) -> snd (process_tags gen combine tags c) <> OutOfFuel.
Proof. exact (@process_tags_fuel_ok). Qed.
Theorem no_retry_is_document_order :
  forall (T C B : Type) (gen : C -> T -> C * outcome B) (combine : B -> B -> B) tags c (f : T -> option B),
  (forall c t, In t tags -> snd (gen c t) = Done (f t)) ->
  exists c', process_tags gen combine tags c =
             (c', Ok (fold_left (bbb_extend combine) (log_boxes (map (fun t => (t, f t)) tags)) None,
                      map (fun t => (t, f t)) tags)).
Proof. exact (@no_retry_document_order). Qed.

(* ---- the document model ---- *)
(* symbol, specs, point, the content of defs (and of clipPath / marker / mask / pattern: table
   container_unrendered) add nothing to the extent of their parent, whatever they contain *)
Theorem unrendered_add_nothing :
  forall (N : NumOps) strp fstr fdisplay f in_specs c e kids c' b,
  adds_nothing N e -> gen_node N strp fstr fdisplay (S f) in_specs c (Node e kids) = (c', Ok b) -> b = None.
Proof. exact adds_nothing_ok. Qed.
(* a group contributes the union of what its children contributed (each child once, independent of
   retries), pushed through its transform attribute *)
Theorem group_extent_is_transformed_union :
  forall strp fstr fdisplay f c e kids c' b,
  ename QOps e = "g"%string -> eempty QOps e = false -> eget QOps e "clip-path" = None ->
  gen_node QOps strp fstr fdisplay (S f) false c (Node e kids) = (c', Ok b) ->
  exists cb log,
    Permutation kids (map fst log) /\ cb = bb_union QOps (log_boxes log) /\
    el_bbox QOps strp (with_cbb QOps e cb) = Ok b.
Proof. exact group_extent_q. Qed.
(* translate / scale with non-negative factors: the transformed box is well formed and contains the
   image of every point of the box (known finding K40: a negative factor inverts the box) *)
Theorem scale_nonneg_wellformed :
  forall (ts : list (xfrm QOps)) (b : QB) (p : Q * Q),
  Forall xfrm_nonneg ts -> wellformed b -> in_box p b ->
  wellformed (apply_transform QOps ts b) /\ in_box (apply_pt ts p) (apply_transform QOps ts b).
Proof. exact apply_transform_ok. Qed.
(* partial: the root written for a document is the specification applied to the extent accumulated
   by the model of process_events. Not proved: that this extent equals an independent function of the
   written geometry for every leaf kind (resolve_position is the identity on positioned shapes,
   element by element); that link is covered by the structural theorems above, the bit-exact
   correspondence and the recomputation oracle. *)
Theorem document_root_partial :
  forall strp fstr fdisplay doc border scale lid sty ext a,
  doc_root QOps strp fstr fdisplay doc border scale lid sty = Ok (ext, Some a) ->
  exists e, first_svg QOps doc = Some e /\ is_real_svg QOps doc = false /\
            doc_extent QOps strp fstr fdisplay doc = Ok ext /\
            (NoDup (keys (eattrs QOps e)) -> root_spec QOps strp fstr (eattrs QOps e) ext border scale lid sty a).
Proof. exact document_root. Qed.

(* partial (sub-language): for plain trees - every leaf already positioned (resolve_position and the dx/dy
   step leave it unchanged), no use, no clip-path, containers g / symbol / specs / defs / a / ... - the
   extent the model of process_events accumulates, through any number of retries, is the structural
   extent of the written tree [spec_extent]: a leaf by its attributes and transform (el_bbox), g = the
   union of its children pushed through its transform, other containers = the union of their children,
   symbol / specs / defs / point (and the table container_unrendered) nothing. What is missing for the
   full property: use, clip paths, and attributes svgdx has to resolve (compound, relative); those are
   tied by the bit-exact correspondence and checked by the recomputation oracle. *)
Theorem extent_matches_structure_partial :
  forall strp fstr fdisplay f n c c' b,
  plain strp fstr fdisplay n -> gen_node QOps strp fstr fdisplay f false c n = (c', Ok b) ->
  opt_box_eq b (spec_extent strp n).
Proof. exact plain_tree_extent. Qed.
Theorem document_extent_partial :
  forall strp fstr fdisplay (n : node QOps) ext,
  plain strp fstr fdisplay n -> is_real_svg QOps [n] = false ->
  doc_extent QOps strp fstr fdisplay [n] = Ok ext ->
  opt_box_eq ext (spec_extent strp n).
Proof. exact plain_document_extent. Qed.

(* ---- the hypotheses are satisfiable by non-trivial instances ---- *)
(* write_root_svg on binary32: extent (1.5, 2)-(11.5, 7), border 5, width supplied in cm *)
Example root_example :
  run_rootattrs [("width", "10cm"); ("fill", "none")]%string
                (Some (1069547520, 1073741824, 1094189056, 1088421888)%Z) 5%Z 1065353216%Z None None
  = Ok [("version", "1.1"); ("xmlns", "http://www.w3.org/2000/svg"); ("width", "10cm"); ("height", "7.143cm");
        ("fill", "none"); ("viewBox", "-4 -3 21 15")]%string.
Proof. vm_compute. reflexivity. Qed.
(* the document model on binary32, evaluated by the kernel: a forward reference (use before its target,
   which sits in a transformed group), defs and point adding nothing, width supplied *)
Example document_example :
  run_docroot
    [mk_node "svg" [("width", "10cm")] 0 false None
       [mk_node "use" [("href", "#a"); ("x", "20")] 1 true None [];
        mk_node "g" [("transform", "translate(3 4) scale(2)")] 2 false None
          [mk_node "rect" [("id", "a"); ("x", "1.5"); ("y", "2"); ("width", "10"); ("height", "5")] 3 true None []];
        mk_node "defs" [] 4 false None [mk_node "circle" [("cx", "100"); ("cy", "100"); ("r", "5")] 5 true None []];
        mk_node "point" [("x", "-50"); ("y", "0")] 6 true None []]]%string 5%Z 1065353216%Z
  = Ok (Some (1086324736, 1073741824, 1107034112, 1099956224)%Z,
        Some [("version", "1.1"); ("xmlns", "http://www.w3.org/2000/svg"); ("width", "10cm"); ("height", "7.222cm");
              ("viewBox", "1 -3 36 26")]%string).
Proof. vm_compute. reflexivity. Qed.
(* a plain document on exact rationals (toy numerals 0..9): a transformed group, defs, a circle *)
Example plain_example :
  plain toy_strp toy_fstr toy_fstr toy_doc /\
  doc_extent QOps toy_strp toy_fstr toy_fstr [toy_doc] = Ok (Some (qbb 3 0 9 14)) /\
  spec_extent toy_strp toy_doc = Some (qbb 3 0 9 14).
Proof. split; [exact toy_doc_plain | split; vm_compute; reflexivity]. Qed.
(* a retry: tag 1 needs tag 2; the log has 2 before 1, the result is the union *)
Example retry_example :
  process_tags demo_gen (bb_combine QOps) [(1%nat, Some 2%nat, qbb 0 0 1 1); (2%nat, None, qbb 5 (-3) 6 2)] [] =
  ([1%nat; 2%nat], Ok (Some (qbb 0 (-3) 6 2), [((2%nat, None, qbb 5 (-3) 6 2), Some (qbb 5 (-3) 6 2));
                                              ((1%nat, Some 2%nat, qbb 0 0 1 1), Some (qbb 0 0 1 1))])).
Proof. vm_compute. reflexivity. Qed.
Example round_example : bb_round QOps (bb_expand QOps (qbb (3#2) 2 (23#2) 7) 5 5) = qbb (-4) (-3) 17 12.
Proof. vm_compute. reflexivity. Qed.
(* known finding K40: a negative scale factor inverts the box (x2 < x1) *)
Example negative_scale_inverts :
  bx2 (apply_transform QOps [XScale QOps (-1) 1] (qbb 1 2 11 7)) < bx1 (apply_transform QOps [XScale QOps (-1) 1] (qbb 1 2 11 7)).
Proof. vm_compute. reflexivity. Qed.

Print Assumptions root_attrs_spec. Print Assumptions root_attrs_total. Print Assumptions viewbox_is_four_numbers.
Print Assumptions root_tables. Print Assumptions derived_dimension_keeps_aspect.
Print Assumptions round_outward_encloses. Print Assumptions expand_monotone. Print Assumptions expand_encloses.
Print Assumptions viewbox_encloses_extent. Print Assumptions viewbox_monotone.
Print Assumptions builder_is_union. Print Assumptions process_tags_each_tag_once.
Print Assumptions accumulated_extent_is_union. Print Assumptions union_same_members_same_extent.
Print Assumptions union_order_independent. Print Assumptions union_repetition_independent.
Print Assumptions process_tags_fuel. Print Assumptions no_retry_is_document_order.
Print Assumptions unrendered_add_nothing. Print Assumptions group_extent_is_transformed_union.
Print Assumptions scale_nonneg_wellformed. Print Assumptions document_root_partial.
Print Assumptions extent_matches_structure_partial. Print Assumptions document_extent_partial.
