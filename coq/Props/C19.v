(* C19 Shape text reaches the output verbatim and at the requested anchor. *)
From Coq Require Import String Ascii List Bool QArith.
From SvgdxModel Require Import Base.Str Base.Res Num.NumOps Gen.Tables Model.Types Model.Geom Model.Position
  Model.Element Model.Text Model.Xml Proofs.StrP Proofs.XmlP Proofs.TextP.
Import ListNotations.
Open Scope string_scope.

(* the generated character data, once XML-unescaped, is the text: for every string *)
Theorem text_chardata_round_trip : forall s, unesc (escape5 s) = Some s.
Proof. exact unesc_escape5. Qed.
(* text without a backslash is used verbatim; backslash-n breaks the line; backslash-backslash-n is literal *)
Theorem text_verbatim : forall s, forall_char not_bsl s = true -> text_string s = s.
Proof. exact text_string_plain. Qed.
Theorem text_line_break : forall a r, forall_char not_bsl a = true ->
  text_string (a ++ bsn ++ r) = a ++ String nl (text_string r).
Proof. exact text_string_newline. Qed.
Theorem text_escaped_break : forall a r, forall_char not_bsl a = true ->
  text_string (a ++ String bsl bsn ++ r) = a ++ bsn ++ text_string r.
Proof. exact text_string_escaped. Qed.
(* one tspan per line *)
Theorem one_line : forall s, forall_char not_nlcr s = true -> nonempty s = true -> lines s = [s].
Proof. exact lines_single. Qed.
Theorem line_split : forall a r, forall_char not_nlcr a = true -> lines (a ++ String nl r) = a :: lines r.
Proof. exact lines_break. Qed.
(* anchor and alignment: computed from the table GENERATED from get_text_position; inside text moves towards the
   centre by text-offset and is aligned to its own side, outside text moves away and is aligned to the opposite side *)
Theorem alignment_table : text_align_table = align_spec.
Proof. exact text_align_table_spec. Qed.
Theorem anchor_offsets : forall (outside vertical : bool) (off dx dy : Q) cls,
  apply_side QOps "top" outside vertical off (cls, dx, dy) =
    ((cls ++ [if outside then (if vertical then "d-text-bottom-vertical" else "d-text-bottom") else (if vertical then "d-text-top-vertical" else "d-text-top")])%list,
     dx, (dy + (if outside then - off else off))%Q) /\
  apply_side QOps "bottom" outside vertical off (cls, dx, dy) =
    ((cls ++ [if outside then (if vertical then "d-text-top-vertical" else "d-text-top") else (if vertical then "d-text-bottom-vertical" else "d-text-bottom")])%list,
     dx, (dy + (if outside then off else - off))%Q) /\
  apply_side QOps "left" outside vertical off (cls, dx, dy) =
    ((cls ++ [if outside then (if vertical then "d-text-right-vertical" else "d-text-right") else (if vertical then "d-text-left-vertical" else "d-text-left")])%list,
     (dx + (if outside then - off else off))%Q, dy) /\
  apply_side QOps "right" outside vertical off (cls, dx, dy) =
    ((cls ++ [if outside then (if vertical then "d-text-left-vertical" else "d-text-left") else (if vertical then "d-text-right-vertical" else "d-text-right")])%list,
     (dx + (if outside then off else - off))%Q, dy).
Proof. exact apply_side_spec. Qed.

Example text_example : text_string (String "a" (bsn ++ String bsl bsn ++ "b")) = String "a" (String nl (bsn ++ "b")).
Proof. vm_compute. reflexivity. Qed.
Example lines_example : lines (String "a" (String nl (String nl "b"))) = ["a"; ""; "b"].
Proof. vm_compute. reflexivity. Qed.

Print Assumptions text_chardata_round_trip. Print Assumptions text_verbatim. Print Assumptions text_line_break.
Print Assumptions text_escaped_break. Print Assumptions one_line. Print Assumptions line_split.
Print Assumptions alignment_table. Print Assumptions anchor_offsets.
