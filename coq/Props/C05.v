(* C05 Output is a fixed point: the writer's normalisations are idempotent. *)
From Coq Require Import String Ascii List Bool.
From SvgdxModel Require Import Base.Str Base.Res Gen.Tables Model.Types Model.Xml
  Proofs.TypesP Proofs.XmlP Proofs.XmlConvP.
Import ListNotations.
Open Scope string_scope.

(* blank-line trimming applied to its own output changes nothing, for every string *)
Theorem blank_line_remover_idempotent : forall s, blank_line_remover (blank_line_remover s) = blank_line_remover s.
Proof. exact blank_line_remover_idem. Qed.

(* escaping is stable: what the writer wrote for a value unescapes to the value, so writing it again
   gives the same bytes *)
Theorem escape_stable : forall v v', unesc (escape5 v) = Some v' -> escape5 v' = escape5 v.
Proof. intros v v' H. rewrite unesc_escape5 in H. now injection H as <-. Qed.

(* the second pass reads exactly the events the first pass wrote (text already coalesced and trimmed) *)
Theorem output_reads_back : forall es, Forall oev_ok es -> read_xml (write_to es) = Some (coalesce es "").
Proof. exact write_to_reads_back. Qed.

(* second pass over first-pass output, fully computed on a concrete document with every kind of item *)
Example fixed_point_example :
  let out := write_to [OStart "svg" [("xmlns", svg_ns); ("a", "<&"">'")] ["c"; "d"]; OText "x  "; OText (String nl "y");
                       OComment " k "; OCData "<raw>"; OEmpty "r" [("x", "1")] []; OEnd "svg"] in
  passthrough_doc out = Some (Some out).
Proof. vm_compute. reflexivity. Qed.

Print Assumptions blank_line_remover_idempotent. Print Assumptions escape_stable. Print Assumptions output_reads_back.
