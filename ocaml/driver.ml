(* Correspondence driver: reads cases (one per line, tab separated, string fields hex encoded),
   runs the extracted Coq model, prints one result line per case. Hand written, trusted. *)
open Model
exception Case_timeout
let budget = try int_of_string (Sys.getenv "SVGDX_DRIVER_BUDGET") with _ -> 60

let explode s = List.init (String.length s) (String.get s)
let implode l = let b = Buffer.create 16 in List.iter (Buffer.add_char b) l; Buffer.contents b

let unhex s =
  let n = String.length s / 2 in
  String.init n (fun i -> Char.chr (int_of_string ("0x" ^ String.sub s (2 * i) 2)))
let hex s =
  let b = Buffer.create (2 * String.length s) in
  String.iter (fun c -> Buffer.add_string b (Printf.sprintf "%02x" (Char.code c))) s;
  Buffer.contents b
let cs s = explode (unhex s)          (* hex field -> coq string *)
let hs l = hex (implode l)            (* coq string -> hex field *)

(* Z <-> OCaml: Z is the extracted inductive (Z0 | Zpos | Zneg over positive) *)
let rec pos_of_int n = if n = 1 then XH else if n land 1 = 0 then XO (pos_of_int (n lsr 1)) else XI (pos_of_int (n lsr 1))
let z_of_int n = if n = 0 then Z0 else if n > 0 then Zpos (pos_of_int n) else Zneg (pos_of_int (-n))
let rec int_of_pos = function XH -> 1 | XO p -> 2 * int_of_pos p | XI p -> 2 * int_of_pos p + 1
let int_of_z = function Z0 -> 0 | Zpos p -> int_of_pos p | Zneg p -> - (int_of_pos p)
let string_of_z z = (* non-negative Z below 2^62 *) string_of_int (int_of_z z)
let rec nat_of_int n = if n <= 0 then O else S (nat_of_int (n - 1))

let split_on c s = if s = "" then [] else String.split_on_char c s
let parse_attrs f =
  List.map (fun kv -> match String.split_on_char ':' kv with
      | [k; v] -> (cs k, cs v) | _ -> failwith "attr") (split_on ',' f)
let show_attrs a = String.concat "," (List.map (fun (k, v) -> hs k ^ ":" ^ hs v) a)
let parse_els f =
  List.map (fun e -> match String.split_on_char '|' e with
      | [n; a] -> (cs n, parse_attrs a) | _ -> failwith "el") (split_on ';' f)
let show_bb (((a, b), c), d) = Printf.sprintf "%d,%d,%d,%d" (int_of_z a) (int_of_z b) (int_of_z c) (int_of_z d)
let parse_bb f = match List.map int_of_string (String.split_on_char ',' f) with
  | [a; b; c; d] -> (((z_of_int a, z_of_int b), z_of_int c), z_of_int d) | _ -> failwith "bb"


(* ---- C07 front-end histories *)
let rec int_of_nat = function O -> 0 | S n -> 1 + int_of_nat n
let parse_pairs f =
  List.map (fun kv -> match String.split_on_char ':' kv with
      | [k; v] -> (cs k, cs v) | _ -> failwith "pair") (split_on ',' f)
let parse_ttbl f =
  List.map (fun e -> match String.split_on_char ':' e with
      | [i; c; "O"; o] -> ((cs i, cs c), TOk (cs o))
      | [i; c; "E"; p; d; g] -> ((cs i, cs c), TErr (cs p, cs d, cs g))
      | _ -> failwith "ttbl") (split_on ',' f)
let parse_hist f =
  List.map (fun e -> match String.split_on_char ':' e with
      | ["S"; i; c] -> RStr (cs i, cs c)
      | ["M"; i; c] -> RStream (cs i, cs c)
      | ["C"; fl; o; si; c] -> RCli (cs fl, cs o, cs si, cs c)
      | ["H"; i; m] -> RHttp (cs i, m = "1")
      | _ -> failwith "request") (split_on ',' f)
let show_obs = function
  | OLibOk o -> "LO:" ^ hs o
  | OLibErr (d, g) -> "LE:" ^ hs d ^ ":" ^ hs g
  | OStream (ok, b, d, g) -> if ok then "SO:" ^ hs b else "SE:" ^ hs b ^ ":" ^ hs d ^ ":" ^ hs g
  | OCli (e, o, r) -> Printf.sprintf "C:%d:%s:%s" (int_of_nat e) (hs o) (hs r)
  | OHttp (s, ct, b) -> Printf.sprintf "H:%d:%s:%s" (int_of_nat s) (hs ct) (hs b)
let front id = function
  | [ttbl; cf; ct; canon; same; enoent; init; hist; probe] ->
    let (obs, files) = run_front (parse_ttbl ttbl) (cs cf) (cs ct) (parse_pairs canon) (parse_pairs same) (cs enoent)
        (parse_pairs init) (parse_hist hist) (List.map cs (split_on ',' probe)) in
    Printf.printf "%s\tOK\t%s\t%s\n" id (String.concat ";" (List.map show_obs obs))
      (String.concat "," (List.map (function Some b -> "=" ^ hs b | None -> "-") files))
  | _ -> Printf.printf "%s\tSKIP\n" id
(* a document: nodes in preorder, ';' separated, each name|attrs|E(mpty)/C(ontainer)|text or -|number of children *)
let parse_doc f =
  let toks = Array.of_list (split_on ';' f) in
  let pos = ref 0 and idx = ref 0 in
  let rec node () =
    let t = toks.(!pos) in
    incr pos;
    match String.split_on_char '|' t with
    | [n; a; fl; tx; k] ->
      let my = !idx in
      incr idx;
      let nk = int_of_string k in
      let kids = ref [] in
      for _ = 1 to nk do kids := node () :: !kids done;
      mk_node (cs n) (parse_attrs a) (z_of_int my) (fl = "E") (if tx = "-" then None else Some (cs tx)) (List.rev !kids)
    | _ -> failwith "node" in
  let out = ref [] in
  while !pos < Array.length toks do out := node () :: !out done;
  List.rev !out

let res_line id r show = match r with
  | Ok v -> Printf.printf "%s\tOK\t%s\n" id (show v)
  | Err k -> Printf.printf "%s\tERR\t%s\n" id (implode (errkind_name k))
  | Panic s -> Printf.printf "%s\tPANIC\t%s\n" id (implode s)
  | OutOfFuel -> Printf.printf "%s\tOUTOFFUEL\n" id

let handle id kind fields =
  match kind, fields with
  | "fstr", [b] -> Printf.printf "%s\tOK\t%s\n" id (hs (fstr_bits (z_of_int (int_of_string b))))
  | "fdisplay", [b] -> Printf.printf "%s\tOK\t%s\n" id (hs (fdisplay_bits (z_of_int (int_of_string b))))
  | "strp", [s] -> let r = int_of_z (strp_bits (cs s)) in
    if r < 0 then Printf.printf "%s\tNONE\n" id else Printf.printf "%s\tOK\t%d\n" id r
  | "attrsplit", [s] -> Printf.printf "%s\tOK\t%s\n" id (String.concat "," (List.map hs (attr_split (cs s))))
  | "posbbox", [n; a] ->
    (match run_posbbox (cs n) (parse_attrs a) with
     | Some bb -> Printf.printf "%s\tOK\t%s\n" id (show_bb bb)
     | None -> Printf.printf "%s\tNONE\n" id)
  | "elbbox", [n; a] ->
    res_line id (run_elbbox (cs n) (parse_attrs a)) (function Some bb -> show_bb bb | None -> "none")
  | "xfrm", [t; bb] -> res_line id (run_xfrm (cs t) (parse_bb bb)) show_bb
  | "resolve", [n; a; o] -> res_line id (run_resolve (cs n) (parse_attrs a) (parse_els o)) show_attrs
  | "textstr", [s] -> Printf.printf "%s\tOK\t%s\n" id (hs (run_textstring (cs s)))
  | "textattr", [n; a] ->
    res_line id (run_textattr (cs n) (parse_attrs a))
      (fun (orig, ts) -> show_attrs orig ^ "\t" ^
                         String.concat ";" (List.map (fun ((n, a), c) -> hs n ^ "|" ^ show_attrs a ^ "|" ^ hs c) ts))
  | "xmlpass", [d] ->
    (match passthrough_doc (cs d) with
     | Some (Some o) -> Printf.printf "%s\tOK\t%s\n" id (hs o)
     | Some None -> Printf.printf "%s\tNOTREAL\n" id
     | None -> Printf.printf "%s\tNONE\n" id)
  | "unesc", [d] ->
    (match unesc (cs d) with
     | Some o -> Printf.printf "%s\tOK\t%s\n" id (hs o)
     | None -> Printf.printf "%s\tNONE\n" id)
  | "connect", [n; a; o] ->
    res_line id (run_connect (cs n) (parse_attrs a) (parse_els o)) (fun (nm, at) -> hs nm ^ "\t" ^ show_attrs at)
  | "front", fs -> front id fs
  | "theme", [cl; el; th; bg; fs; ff; lid] ->
    let lst f = List.map cs (split_on ',' f) in
    let shows l = String.concat "," (List.map hs l) in
    res_line id (run_theme (lst cl) (lst el) (cs th) (cs bg) (cs fs) (cs ff) (if lid = "" then None else Some (cs lid)))
      (fun (d, s) -> shows d ^ "\t" ^ shows s)
  | "autostyles", [add; root; evs; th; bg; fs; ff; lid] ->
    let lst f = List.map cs (split_on ',' f) in
    let shows l = String.concat "," (List.map hs l) in
    let ev e = match String.split_on_char '|' e with
      | [n; c] -> (cs n, lst c) | _ -> failwith "event" in
    (match run_autostyles (add = "1") (root = "1") (List.map ev (split_on ';' evs)) (cs th) (cs bg) (cs fs) (cs ff)
             (if lid = "" then None else Some (cs lid)) with
     | None -> Printf.printf "%s\tNONE\n" id
     | Some r -> res_line id r (fun (d, s) -> shows d ^ "\t" ^ shows s))
  | "rngattr", [v; ""; seed] when (match run_rng_attr (cs v) Z0 with Some _ -> true | None -> false) ->
    (* values made only of random()/randint() calls (C06); anything else is not handled here *)
    let rec z_of_string s = (* decimal u64, may exceed OCaml's int *)
      String.fold_left (fun acc c -> Model.Z.add (Model.Z.mul acc (z_of_int 10)) (z_of_int (Char.code c - 48))) Z0 s in
    (match run_rng_attr (cs v) (z_of_string seed) with
     | Some (Ok s, w) -> Printf.printf "%s\tOK\t%s\t%s\n" id (hs s) (string_of_z w)
     | Some (Err k, w) -> Printf.printf "%s\tERR\t%s\t%s\n" id (implode (errkind_name k)) (string_of_z w)
     | _ -> Printf.printf "%s\tSKIP\n" id)
  | "rootattrs", [a; bbx; border; scale; lid; sty] ->
    let ob = if bbx = "none" then None else Some (parse_bb bbx) in
    let os f = if f = "-" then None else Some (cs f) in
    res_line id (run_rootattrs (parse_attrs a) ob (z_of_int (int_of_string border)) (z_of_int (int_of_string scale)) (os lid) (os sty)) show_attrs
  | "docroot", [d; border; scale] ->
    res_line id (run_docroot (parse_doc d) (z_of_int (int_of_string border)) (z_of_int (int_of_string scale)))
      (fun (e, a) -> (match e with Some bb -> show_bb bb | None -> "none") ^ "\t" ^
                     (match a with Some a -> "A" ^ show_attrs a | None -> "none"))
  | "evalattr", [v; a; seed] ->
    (* seeds are u64: parse through Int64 so that values >= 2^62 survive; build the Z by halves *)
    let sd = Int64.of_string ("0u" ^ seed) in
    let hi = Int64.to_int (Int64.shift_right_logical sd 32) and lo = Int64.to_int (Int64.logand sd 0xFFFFFFFFL) in
    let zseed = Z.add (Z.mul (z_of_int hi) (z_of_int 4294967296)) (z_of_int lo) in
    (match run_evalattr (cs v) (parse_attrs a) zseed with
     | Ok ((s, w), n) -> Printf.printf "%s\tOK\t%s\t%d\t%d\n" id (hs s) (int_of_z w) (int_of_z n)
     | Err k -> Printf.printf "%s\tERR\t%s\n" id (implode (errkind_name k))
     | Panic m -> Printf.printf "%s\tPANIC\t%s\n" id (implode m)
     | OutOfFuel -> Printf.printf "%s\tOUTOFFUEL\n" id)
  | "evalcond", [v; a] ->
    res_line id (run_evalcond (cs v) (parse_attrs a)) (fun b -> if b then "true" else "false")
  | "evallist", [v; a] ->
    res_line id (run_evallist (cs v) (parse_attrs a)) (fun l -> String.concat "," (List.map hs l))
  | "rngwords", [seed; n] ->
    Printf.printf "%s\tOK\t%s\n" id (String.concat "," (List.map (fun w -> string_of_int (int_of_z w)) (run_rngwords (z_of_int (int_of_string seed)) (z_of_int (int_of_string n)))))
  | "mdoc", [ll; vl; dl; seed; border; scale; d] ->
    (* whole documents through the composed model: limits, seed, border, scale bits, document *)
    let zi x = z_of_int (int_of_string x) in
    (match run_doc (zi ll) (zi vl) (zi dl) (zi seed) (zi border) (zi scale) (cs d) with
     | Ok s -> Printf.printf "%s\tOK\t%s\n" id (hs s)
     | Err k -> Printf.printf "%s\tERR\t%s\n" id (implode (errkind_name k))
     | Panic m -> Printf.printf "%s\tPANIC\t%s\n" id (implode m)
     | OutOfFuel -> Printf.printf "%s\tOUTOFFUEL\n" id)
  | _ -> Printf.printf "%s\tSKIP\n" id

let () =
  Sys.set_signal Sys.sigalrm (Sys.Signal_handle (fun _ -> raise Case_timeout));
  try while true do
      let line = input_line stdin in
      match String.split_on_char '\t' line with
      | id :: kind :: fields ->
        (* a budget per case (whole documents with many loop passes are slow in the extracted model): TIMEOUT = no model answer *)
        ignore (Unix.alarm budget);
        (try handle id kind fields with
         | Stack_overflow -> Printf.printf "%s\tSTACKOVERFLOW\n" id
         | Case_timeout -> Printf.printf "%s\tTIMEOUT\n" id
         | Failure m -> Printf.printf "%s\tDRIVERFAIL\t%s\n" id m);
        ignore (Unix.alarm 0)
      | _ -> ()
    done with End_of_file -> ()
